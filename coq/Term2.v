From Coq Require Import List ZArith String Bool NArith Lia Wf_nat.
Import ListNotations.
From Bexpr Require Import Base Ast Unicode Peg FuelMono Term TypingSound Budget.
Open Scope string_scope.

Fixpoint size (e : pexpr) : nat :=
  match e with
  | PAction _ b | PLabeled _ b | PAnd b | PNot b | POpt b | PStar b | PPlus b => S (size b)
  | PChoice l | PSeq l => S (fold_right (fun a n => size a + n)%nat 0%nat l)
  | _ => 1%nat
  end.
Lemma size_in a l : In a l -> (size a <= fold_right (fun a n => size a + n)%nat 0%nat l)%nat.
Proof. induction l as [|x l IH]; cbn; [tauto|]. intros [->|H]; [lia|specialize (IH H); lia]. Qed.

Section T.
Variable g : list rule.
Variable action_sem : string -> frame -> string -> ares.
Variable pred_sem : string -> frame -> bool * bool.
Variable nt : string -> bool.
Variable rk : string -> nat.
Variable K : nat.
Hypothesis Hwf : grammar_wf nt rk K g = true.
Notation pe := (pe g None action_sem pred_sem).
Notation nul := (nul nt).
Notation wfa := (wfa nt rk K).
Notation wf_seq := (wf_seq nt rk K).

Lemma rule_facts n r : find_rule g n = Some r ->
  wfa (rk n) (rexpr r) = true /\ (rk n < K)%nat /\ (nul (rexpr r) = true -> nt n = true).
Proof.
  intros H. destruct (find_rule_in g n r H) as [Hin <-]. unfold grammar_wf in Hwf. rewrite forallb_forall in Hwf.
  specialize (Hwf r Hin). apply andb_prop in Hwf. destruct Hwf as [H1 H3]. apply andb_prop in H1. destruct H1 as [H1 H2].
  apply Nat.ltb_lt in H2. repeat split; auto. intros Hn. rewrite Hn in H3. cbn in H3. exact H3.
Qed.

Lemma Hnt : forall n r, find_rule g n = Some r -> nul (rexpr r) = true -> nt n = true.
Proof. intros n r H. apply (rule_facts n r H). Qed.

(* a level can always be raised *)
Lemma wfa_mono_sz n : forall e, (size e <= n)%nat -> forall k k', (k <= k')%nat -> wfa k e = true -> wfa k' e = true.
Proof.
  induction n as [|n IH]; intros e Hs k k' Hk; [destruct e; cbn in Hs; lia|].
  destruct e; cbn [size] in Hs; cbn [Term.wfa]; try (intros _; reflexivity); try (apply (IH e ltac:(lia) k k' Hk)).
  - (* choice *)
    intros H. rewrite forallb_forall in *. intros a Ha.
    assert (Hsa : (size a <= n)%nat) by (pose proof (size_in a alts Ha); lia). apply (IH a Hsa k k' Hk). apply H; exact Ha.
  - (* sequence *)
    change ((fix go (es0 : list pexpr) (k0 : nat) {struct es0} : bool :=
               match es0 with [] => true | a :: r => Term.wfa nt rk K k0 a && go r (if Term.nul nt a then k0 else K) end) es k)
      with (wf_seq es k).
    change ((fix go (es0 : list pexpr) (k0 : nat) {struct es0} : bool :=
               match es0 with [] => true | a :: r => Term.wfa nt rk K k0 a && go r (if Term.nul nt a then k0 else K) end) es k')
      with (wf_seq es k').
    assert (Hall : forall a, In a es -> (size a <= n)%nat) by (intros a Ha; pose proof (size_in a es Ha); lia).
    clear Hs. revert k k' Hk. induction es as [|a r IHr]; intros k k' Hk; cbn; auto.
    intros H. apply andb_prop in H. destruct H as [H1 H2].
    rewrite (IH a (Hall a (or_introl eq_refl)) k k' Hk H1). cbn [andb].
    destruct (nul a); [apply (IHr (fun x Hx => Hall x (or_intror Hx)) k k' Hk H2)|exact H2].
  - intros H. apply Nat.ltb_lt in H. apply Nat.ltb_lt. lia.
  - intros H. apply andb_prop in H. destruct H as [H1 H2]. rewrite (IH e ltac:(lia) k k' Hk H1), H2. reflexivity.
  - intros H. apply andb_prop in H. destruct H as [H1 H2]. rewrite (IH e ltac:(lia) k k' Hk H1), H2. reflexivity.
Qed.
Lemma wfa_mono e k k' : (k <= k')%nat -> wfa k e = true -> wfa k' e = true.
Proof. apply (wfa_mono_sz (size e) e (le_n _)). Qed.
Lemma wf_seq_mono es k k' : (k <= k')%nat -> wf_seq es k = true -> wf_seq es k' = true.
Proof. intros Hk H. apply (wfa_mono (PSeq es) k k' Hk H). Qed.

(* a computation indexed by fuel settles on one non-OutOfFuel value *)
Definition settles (C : nat -> res) : Prop := exists f0 r, r <> OutOfFuel /\ forall f, (f0 <= f)%nat -> C f = r.
Definition halts (e : pexpr) (s : st) : Prop := settles (fun f => pe f e s).

Lemma settles_bindr (C : nat -> res) (Kf : nat -> bool -> pv -> st -> res) :
  settles C -> (forall ok v s, (exists f, C f = Done ok v s) -> settles (fun f => Kf f ok v s)) ->
  settles (fun f => bindr (C f) (Kf f)).
Proof.
  intros [f0 [r [Hr Hc]]] Hk. destruct r as [ok v s|a s|]; [| |congruence].
  - destruct (Hk ok v s (ex_intro _ f0 (Hc f0 (le_n _)))) as [f1 [r1 [Hr1 Hk1]]].
    exists (Nat.max f0 f1), r1. split; [exact Hr1|]. intros f Hf. rewrite Hc by lia. cbn. apply Hk1. lia.
  - exists f0, (Abort a s). split; [discriminate|]. intros f Hf. rewrite Hc by lia. reflexivity.
Qed.

Lemma settles_const r : r <> OutOfFuel -> settles (fun _ => r).
Proof. intros H. exists 0%nat, r. auto. Qed.

Lemma halts_with_frame e s : halts e (set_fr s []) -> settles (fun f => with_frame (pe f e) s).
Proof. intros H. unfold with_frame. apply settles_bindr; [exact H|]. intros. apply settles_const. discriminate. Qed.

Lemma with_frame_ilen f e s ok v s' : with_frame (pe f e) s = Done ok v s' ->
  (ilen s' <= ilen s)%nat /\ (ok = true -> ilen s' = ilen s -> nul e = true) /\ (ok = false -> ilen s' = ilen s).
Proof.
  intros H. pose proof (wf_post nt (pe f) (pe_post g None action_sem pred_sem nt Hnt f) e s) as Hp. rewrite H in Hp.
  destruct ok; cbn in Hp; repeat split; try tauto; try lia; try discriminate.
Qed.
Lemma pe_ilen f e s ok v s' : pe f e s = Done ok v s' ->
  (ilen s' <= ilen s)%nat /\ (ok = true -> ilen s' = ilen s -> nul e = true) /\ (ok = false -> ilen s' = ilen s).
Proof.
  intros H. pose proof (pe_post g None action_sem pred_sem nt Hnt f e s) as Hp. rewrite H in Hp.
  destruct ok; cbn in Hp; repeat split; try tauto; try lia; try discriminate.
Qed.

(* ===== the induction ===== *)
Section Step.
Variable len k : nat.
Hypothesis Hk : (k <= K)%nat.
(* outer hypothesis: on strictly shorter input everything well-formed at the top level halts *)
Hypothesis Hlen : forall e s, wfa K e = true -> (ilen s < len)%nat -> halts e s.
(* middle hypothesis: on input of at most this length, lower levels halt *)
Hypothesis Hlev : forall k' e s, (k' < k)%nat -> wfa k' e = true -> (ilen s <= len)%nat -> halts e s.

Section Size.
Variable sz : nat.
(* inner hypothesis: smaller expressions at this level halt *)
Hypothesis Hsz : forall e s, (size e < sz)%nat -> wfa k e = true -> (ilen s <= len)%nat -> halts e s.

(* either we are still at the entry position (level k, small expression) or input was consumed (top level) *)
Definition ready (e : pexpr) (s : st) : Prop :=
  ((size e < sz)%nat /\ wfa k e = true /\ (ilen s <= len)%nat) \/ (wfa K e = true /\ (ilen s < len)%nat).
Lemma ready_halts e s : ready e s -> halts e s.
Proof. intros [[H1 [H2 H3]]|[H1 H2]]; [apply Hsz; assumption|apply Hlen; assumption]. Qed.
Lemma ready_fr e s f : ready e s -> ready e (set_fr s f).
Proof. unfold ready. rewrite ilen_set_fr. auto. Qed.

Lemma choice_settles alts : (forall a, In a alts -> (size a < sz)%nat /\ wfa k a = true) -> forall s, (ilen s <= len)%nat ->
  settles (fun f => choice (pe f) alts s).
Proof.
  induction alts as [|a alts IH]; intros Ha s Hs; cbn [choice]; [apply settles_const; discriminate|].
  apply settles_bindr.
  - apply halts_with_frame. apply Hsz; [apply Ha; left; reflexivity|apply Ha; left; reflexivity|rewrite ilen_set_fr; exact Hs].
  - intros ok v s1 [f Hf]. destruct ok; [apply settles_const; discriminate|].
    destruct (with_frame_ilen f a s false v s1 Hf) as [H1 _]. apply IH; [intros; apply Ha; right; assumption|lia].
Qed.

Lemma seq_settles es : forall lvl start acc s,
  (forall a, In a es -> (size a < sz)%nat) ->
  (((lvl = k /\ (ilen s <= len)%nat) \/ ((lvl <= K)%nat /\ (ilen s < len)%nat))) -> wf_seq es lvl = true ->
  settles (fun f => seq (pe f) es start acc s).
Proof.
  induction es as [|a es IH]; intros lvl start acc s Hsize Hinv Hw; cbn [seq]; [apply settles_const; discriminate|].
  cbn in Hw. apply andb_prop in Hw. destruct Hw as [Hwa Hwr].
  assert (Ha : halts a s).
  { destruct Hinv as [[-> Hs]|[Hl Hs]]; [apply Hsz; [apply Hsize; left; reflexivity|exact Hwa|exact Hs]|].
    apply Hlen; [apply (wfa_mono a lvl K Hl Hwa)|exact Hs]. }
  apply settles_bindr; [exact Ha|].
  intros ok v s1 [f Hf]. destruct ok; [|apply settles_const; discriminate].
  destruct (pe_ilen f a s true v s1 Hf) as [H1 [H2 _]].
  apply (IH (if nul a then lvl else K)); [intros; apply Hsize; right; assumption| |exact Hwr].
  destruct Hinv as [[-> Hs]|[Hl Hs]].
  - destruct (nul a) eqn:En.
    + destruct (Nat.eq_dec (ilen s1) (ilen s)) as [E|E]; [left; split; [reflexivity|lia]|right; split; [exact Hk|lia]].
    + right. split; [lia|]. destruct (Nat.eq_dec (ilen s1) (ilen s)) as [E|E]; [specialize (H2 eq_refl E); congruence|lia].
  - right. split; [destruct (nul a); lia|lia].
Qed.

(* repetition of a non-nullable body: every successful round consumes, so at most [ilen s] rounds follow *)
Lemma star_settles b : nul b = false -> wfa K b = true ->
  forall m s acc, (ilen s <= m)%nat -> (ilen s < len)%nat \/ ((ilen s <= len)%nat /\ (size b < sz)%nat /\ wfa k b = true) ->
  exists f0 r, r <> OutOfFuel /\ forall f cnt0, (f0 <= f)%nat -> (ilen s < cnt0)%nat -> star (pe f) cnt0 b acc s = r.
Proof.
  intros Hn HwK. induction m as [m IH] using lt_wf_ind. intros s acc Hm Hinv.
  assert (Hb : halts b (set_fr s [])).
  { destruct Hinv as [Hs|[Hs [Hz Hw]]]; [apply Hlen; [exact HwK|rewrite ilen_set_fr; exact Hs]|apply Hsz; [exact Hz|exact Hw|rewrite ilen_set_fr; exact Hs]]. }
  destruct (halts_with_frame b s Hb) as [f1 [r1 [Hr1 Hc1]]].
  destruct r1 as [ok v s1|a s1|]; [| |congruence].
  - destruct ok.
    + (* a successful round consumed input *)
      destruct (with_frame_ilen f1 b s true v s1 (Hc1 f1 (le_n _))) as [H1 [H2 _]].
      assert (Hlt : (ilen s1 < ilen s)%nat).
      { destruct (Nat.eq_dec (ilen s1) (ilen s)) as [E|E]; [specialize (H2 eq_refl E); congruence|lia]. }
      destruct (IH (ilen s1) ltac:(lia) s1 (v :: acc) (le_n _)) as [f2 [r2 [Hr2 Hc2]]].
      { left. destruct Hinv as [Hs|[Hs _]]; lia. }
      exists (Nat.max f1 f2), r2. split; [exact Hr2|]. intros f c0 Hf Hc. destruct c0 as [|c0]; [lia|]. cbn [star].
      rewrite Hc1 by lia. cbn [bindr]. apply Hc2; lia.
    + exists f1, (Done true (VList (rev acc)) s1). split; [discriminate|]. intros f c0 Hf Hc. destruct c0 as [|c0]; [lia|]. cbn [star].
      rewrite Hc1 by lia. reflexivity.
  - exists f1, (Abort a s1). split; [discriminate|]. intros f c0 Hf Hc. destruct c0 as [|c0]; [lia|]. cbn [star].
    rewrite Hc1 by lia. reflexivity.
Qed.

(* one level of the interpreter settles once all its sub-runs do *)
Lemma body_settles e s : (size e <= sz)%nat -> wfa k e = true -> (ilen s <= len)%nat ->
  settles (fun f => body g action_sem pred_sem (pe f) f e s).
Proof.
  intros Hz Hw Hs. destruct e; cbn [size] in Hz; cbn [Term.wfa] in Hw; cbn [body].
  - (* action *)
    apply settles_bindr; [apply Hsz; [lia|exact Hw|exact Hs]|]. intros ok v s1 _. apply settles_const.
    destruct ok; [destruct (action_sem _ _ _)|]; discriminate.
  - apply settles_const. destruct (pred_sem _ _) as [b e]; discriminate.
  - apply settles_const. destruct (pred_sem _ _) as [b e]; discriminate.
  - apply settles_bindr; [apply halts_with_frame, Hsz; [lia|exact Hw|rewrite ilen_set_fr; exact Hs]|]. intros. apply settles_const. discriminate.
  - apply settles_bindr; [apply halts_with_frame, Hsz; [lia|exact Hw|rewrite ilen_set_fr; exact Hs]|]. intros. apply settles_const. discriminate.
  - apply settles_const. destruct (inp s); discriminate.
  - apply settles_const. destruct (inp s); [|destruct (class_match _ _)]; discriminate.
  - apply settles_const. destruct (lit_go _ _ _) as [ok s1]; destruct ok; discriminate.
  - (* choice *)
    apply choice_settles; [|exact Hs]. intros a Ha. rewrite forallb_forall in Hw. split; [pose proof (size_in a alts Ha); lia|apply Hw; exact Ha].
  - (* sequence *)
    apply (seq_settles es k); [intros a Ha; pose proof (size_in a es Ha); lia|left; split; [reflexivity|exact Hs]|exact Hw].
  - apply settles_bindr; [apply halts_with_frame, Hsz; [lia|exact Hw|rewrite ilen_set_fr; exact Hs]|]. intros. apply settles_const. discriminate.
  - (* rule reference: a strictly lower level *)
    destruct (find_rule g name) as [r0|] eqn:Ef; [|apply settles_const; discriminate].
    destruct (rule_facts name r0 Ef) as [Hwr [_ _]]. apply Nat.ltb_lt in Hw.
    apply halts_with_frame. apply (Hlev (rk name)); [exact Hw|exact Hwr|rewrite ilen_set_fr; exact Hs].
  - (* star *)
    apply andb_prop in Hw. destruct Hw as [Hw Hn]. apply negb_true_iff in Hn.
    destruct (star_settles e Hn (wfa_mono e k K Hk Hw) (ilen s) s [] (le_n _)) as [f0 [r [Hr Hc]]].
    { right. split; [exact Hs|]. split; [lia|exact Hw]. }
    exists (Nat.max f0 (S (ilen s))), r. split; [exact Hr|]. intros f Hf. apply Hc; lia.
  - (* plus *)
    apply andb_prop in Hw. destruct Hw as [Hw Hn]. apply negb_true_iff in Hn.
    assert (Hb : settles (fun f => with_frame (pe f e) s)) by (apply halts_with_frame, Hsz; [lia|exact Hw|rewrite ilen_set_fr; exact Hs]).
    destruct Hb as [f1 [r1 [Hr1 Hc1]]]. destruct r1 as [ok v s1|a s1|]; [| |congruence].
    + destruct ok.
      * destruct (with_frame_ilen f1 e s true v s1 (Hc1 f1 (le_n _))) as [H1 [H2 _]].
        assert (Hlt : (ilen s1 < ilen s)%nat) by (destruct (Nat.eq_dec (ilen s1) (ilen s)) as [E|E]; [specialize (H2 eq_refl E); congruence|lia]).
        destruct (star_settles e Hn (wfa_mono e k K Hk Hw) (ilen s1) s1 [v] (le_n _)) as [f2 [r2 [Hr2 Hc2]]]; [left; lia|].
        exists (Nat.max (Nat.max f1 f2) (S (ilen s1))), r2. split; [exact Hr2|]. intros f Hf. rewrite Hc1 by lia. cbn [bindr]. apply Hc2; lia.
      * exists f1, (Done false VNil s1). split; [discriminate|]. intros f Hf. rewrite Hc1 by lia. reflexivity.
    + exists f1, (Abort a s1). split; [discriminate|]. intros f Hf. rewrite Hc1 by lia. reflexivity.
  - apply settles_bindr; [apply halts_with_frame, Hsz; [lia|exact Hw|rewrite ilen_set_fr; exact Hs]|]. intros. apply settles_const. discriminate.
Qed.

Lemma expr_halts e s : (size e <= sz)%nat -> wfa k e = true -> (ilen s <= len)%nat -> halts e s.
Proof.
  intros Hz Hw Hs.
  destruct (body_settles e {| inp := inp s; cnt := N.succ (cnt s); nerr := nerr s; fr := fr s |} Hz Hw Hs) as [f0 [r [Hr Hc]]].
  exists (S f0), r. split; [exact Hr|]. intros f Hf. destruct f as [|f]; [lia|]. cbn [Peg.pe]. unfold step, tick. apply Hc. lia.
Qed.
End Size.
End Step.

(* every well-formed expression halts, at every level, on every input: induction on (input length, level, size) *)
Theorem all_halt : forall len k, (k <= K)%nat -> forall sz e s, (size e <= sz)%nat -> wfa k e = true -> (ilen s <= len)%nat -> halts e s.
Proof.
  induction len as [len IHlen] using lt_wf_ind. induction k as [k IHk] using lt_wf_ind. intros Hk.
  assert (Hlen : forall e s, wfa K e = true -> (ilen s < len)%nat -> halts e s).
  { intros e s Hw Hs. apply (IHlen (ilen s) Hs K (le_n _) (size e) e s (le_n _) Hw (le_n _)). }
  assert (Hlev : forall k' e s, (k' < k)%nat -> wfa k' e = true -> (ilen s <= len)%nat -> halts e s).
  { intros k' e s Hk' Hw Hs. apply (IHk k' Hk' ltac:(lia) (size e) e s (le_n _) Hw Hs). }
  induction sz as [|sz IHsz]; intros e s Hz Hw Hs; [destruct e; cbn in Hz; lia|].
  apply (expr_halts len k Hk Hlen Hlev (S sz)); auto.
  intros e' s' Hz' Hw' Hs'. apply IHsz; [lia|exact Hw'|exact Hs'].
Qed.

(* C10: the unlimited parse of a well-formed grammar terminates on every input *)
Theorem parse_terminates input : exists fuel, parse g None action_sem pred_sem fuel input <> NoFuel.
Proof.
  assert (Hg : g = [] \/ exists r0 rules, g = r0 :: rules) by (clear; destruct g; eauto).
  destruct Hg as [Hg|[r0 [rules Hg]]].
  - exists 0%nat. unfold parse. rewrite Hg. discriminate.
  - assert (Hf : find_rule g (rname r0) = Some r0) by (rewrite Hg; cbn; rewrite String.eqb_refl; reflexivity).
    destruct (rule_facts (rname r0) r0 Hf) as [Hw [Hr _]].
    set (s0 := peek_err (utf8_cells input) {| inp := utf8_cells input; cnt := 0; nerr := 0; fr := [] |}).
    assert (Hh : halts (rexpr r0) (set_fr s0 [])).
    { apply (all_halt (ilen s0) K (le_n _) (size (rexpr r0))); [apply le_n|apply (wfa_mono _ (rk (rname r0)) K); [lia|exact Hw]|rewrite ilen_set_fr; apply le_n]. }
    destruct (halts_with_frame _ s0 Hh) as [f0 [r [Hne Hc]]].
    exists f0. rewrite (Budget.parse_finish g action_sem pred_sem None f0 input r0 rules Hg). fold s0. rewrite (Hc f0 (le_n _)).
    destruct r as [[|] v s|[|] s|]; cbn; try discriminate; [destruct (Nat.eqb _ _); discriminate|congruence].
Qed.
End T.
Print Assumptions parse_terminates.
