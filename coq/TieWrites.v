(* Static tie for C12 / C13: the assignments in bexpr.go, evaluate.go, filter.go, options.go and coerce.go whose target is a
   field, a dereference or an element, each classified by tools/gotables (regenerated on every run) as a write to the
   function's OWN COPY of a struct (a chain of field selections on a by-value parameter or on a local initialised from a
   composite literal or from such a parameter) or as a write to something SHARED (through pointer parameters and receivers,
   package variables, locals of unknown origin, elements, dereferences).
   On the evaluation path - the functions reachable from Evaluator.Evaluate and Filter.Execute through mentions by name
   (go_eval_reachable, computed by the translator), except the option constructors, whose closures write only through the
   *options argument that getOpts allocates per call - there is no shared write at all; and the package has no variable that could hold state written after initialisation.
   This is the code-side counterpart of `evaluate_write_free` (C12b.v): a new cache, memo, pool or counter stops these lemmas.
   The statements do not mention variable names, so renaming or re-shaping the per-call copies does not stop them. *)
From Coq Require Import List String Bool.
From Bexpr Require Import GoTables.
Import ListNotations.
Open Scope string_scope.

Definition option_constructors := ["WithMaxExpressions"; "WithTagName"; "WithHookFn"; "WithUnknownValue"; "WithLocalVariable"].
Definition w_fn (w : string * string * string * string) : string := match w with (_, fn, _, _) => fn end.
Definition w_class (w : string * string * string * string) : string := match w with (_, _, _, c) => c end.
Definition shared_writes := filter (fun w => String.eqb (w_class w) "shared") go_field_writes.
Definition evaluation_path_shared_writes :=
  filter (fun w => existsb (String.eqb (w_fn w)) go_eval_reachable && negb (existsb (String.eqb (w_fn w)) option_constructors)) shared_writes.

Lemma evaluation_path_writes_nothing_shared : evaluation_path_shared_writes = [].
Proof. reflexivity. Qed.

(* the evaluation path is not empty: the evaluator's own functions are on it (so the statement above is not vacuous) *)
Lemma evaluation_path_is_populated :
  forallb (fun f => existsb (String.eqb f) go_eval_reachable) ["Evaluate"; "Execute"; "evaluate"] = true.
Proof. reflexivity. Qed.

Lemma write_classes_are_known : forallb (fun w => String.eqb (w_class w) "shared" || String.eqb (w_class w) "own-copy") go_field_writes = true.
Proof. reflexivity. Qed.

(* every package-level variable is either a basic literal or the result of reflect.TypeOf / errors.New / regexp.MustCompile / fmt.Errorf
   ("fixed"), or a table that no function body assigns to, increments, takes the address of, ranges into or calls a writing method on
   ("unwritten"); variables of sync / atomic / channel types are never accepted *)
Lemma no_mutable_package_state : forallb (fun v => match v with (_, _, c) => String.eqb c "fixed" || String.eqb c "unwritten" end) go_package_vars = true.
Proof. reflexivity. Qed.

(* Calls that can write through their target (append, copy, delete, reflect.Append/AppendSlice/Copy, sort.*, and methods named
   Set*, Store, Swap, Add, Put, Lock, Do, Write* ... - go_mutating_calls): on the evaluation path every one of them targets a
   container the function made itself (make, a composite literal, T(nil), reflect.MakeSlice/MakeMap, MapKeys, append of those).
   Filter.Execute builds its result with reflect.Append / SetMapIndex on containers it made; the quantifier sorts the key list it
   obtained from MapKeys and appends bindings to its own copy of the option list. A cache behind a method (sync.Map.Store,
   sync.Pool.Put), an in-place edit of the input (rvalue.Index(i).Set, sort of the caller's slice) or an append to the caller's
   option slice stops this lemma. *)
Definition c_fn (c : string * string * string * string * string) : string := match c with (_, fn, _, _, _) => fn end.
Definition c_callee (c : string * string * string * string * string) : string := match c with (_, _, k, _, _) => k end.
Definition c_class (c : string * string * string * string * string) : string := match c with (_, _, _, _, k) => k end.
Definition evaluation_path_shared_calls :=
  filter (fun c => existsb (String.eqb (c_fn c)) go_eval_reachable && negb (existsb (String.eqb (c_fn c)) option_constructors)
                   && negb (String.eqb (c_class c) "fresh")) go_mutating_calls.

Lemma evaluation_path_mutates_only_its_own_containers : evaluation_path_shared_calls = [].
Proof. reflexivity. Qed.

(* non-vacuity: the evaluation path is seen to build containers of its own through such calls (whichever function does it) *)
Lemma evaluation_path_builds_fresh_containers :
  existsb (fun c => existsb (String.eqb (c_fn c)) go_eval_reachable && String.eqb (c_class c) "fresh") go_mutating_calls = true.
Proof. reflexivity. Qed.
