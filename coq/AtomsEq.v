From Coq Require Import List ZArith String Ascii Bool NArith Lia.
Import ListNotations.
From Bexpr Require Import Base Ast Unicode Peg Typing Actions GoGrammar Sem Term Lex Lex2 Lex3 Calc Calc2 Skel Top Atoms StrLit NoHdr.
Open Scope string_scope.

(* A second atom family:  name(.name)* == "literal"  with free blanks around the operator. *)

Definition K_eq := lit_cells [61; 61]%Z.

Lemma ws_rune c : is_ws c -> crune c = 32%Z \/ crune c = 9%Z \/ crune c = 13%Z \/ crune c = 10%Z.
Proof.
  unfold is_ws, class_match. cbn. rewrite !orb_false_r. intros H.
  destruct (Z.eqb_spec (crune c) 32); [auto|]. destruct (Z.eqb_spec (crune c) 9); [auto|].
  destruct (Z.eqb_spec (crune c) 13); [auto|]. destruct (Z.eqb_spec (crune c) 10); [auto|]. discriminate H.
Qed.

Lemma sel_stop_ws c k : is_ws c -> sel_stop (c :: k).
Proof.
  intros H. unfold sel_stop, id_stop, no_dot_no_bracket, head_not.
  destruct (ws_rune c H) as [E|[E|[E|E]]]; rewrite E; repeat split; try reflexivity; discriminate.
Qed.

Definition eq_tail (w1 w2 : list cell) (rest : list cell) : list cell := app w1 (app K_eq (app w2 rest)).

Lemma sel_stop_eq_tail w1 w2 rest : Forall is_ws w1 -> sel_stop (eq_tail w1 w2 rest).
Proof.
  intros Hw. unfold eq_tail. destruct w1 as [|c w1]; cbn [app].
  - repeat split; cbn; discriminate.
  - inversion Hw as [|? ? Hc _]; subst. apply sel_stop_ws. exact Hc.
Qed.

Lemma match_equal_spec w1 w2 rest : Forall is_ws w1 -> Forall is_ws w2 -> ws_free rest ->
  spec (PRef "MatchEqual") (eq_tail w1 w2 rest) (VMOp OpEq) rest.
Proof.
  intros H1 H2 Hr. eapply ref_ok; [reflexivity|]. cbn [rexpr]. eapply action_ok.
  - apply seq_ok. unfold eq_tail.
    eapply seqs_cons; [apply (ws_opt_ok w1 _ H1); reflexivity|].
    eapply seqs_cons; [apply (lit_ok [61; 61]%Z K_eq _ eq_refl)|].
    eapply seqs_cons; [apply (ws_opt_ok w2 _ H2); exact Hr|]. apply seqs_nil.
  - intros G. reflexivity.
Qed.

Record eqatom := {
  e_first : ident; e_rest : list ident; e_w1 : list cell; e_w2 : list cell;
  e_q : cell; e_x : cell; e_cs : list cell; e_q' : cell; e_lit : string;
  e_ok1 : ident_ok e_first; e_ok2 : Forall ident_ok e_rest; e_not_n : crune (fst e_first) <> 110%Z;
  e_ws1 : Forall is_ws e_w1; e_ws2 : Forall is_ws e_w2;
  e_hq : crune e_q = 34%Z; e_hq' : crune e_q' = 34%Z; e_hx : crune e_x <> 47%Z;
  e_body : Forall not_dq (e_x :: e_cs);
  e_unq : unquote (cells_str (e_q :: app (e_x :: e_cs) [e_q'])) = Some e_lit }.

Definition e_sel (a : eqatom) : selector := {| stype := SelBexpr; spath := ident_str (e_first a) :: map ident_str (e_rest a) |}.
Definition e_exp (a : eqatom) : expr := EMatch (e_sel a) OpEq (Some (e_lit a)).
Definition e_lit_cells (a : eqatom) (k : list cell) : list cell := e_q a :: app (e_x a :: e_cs a) (e_q' a :: k).
Definition e_txt (a : eqatom) : list cell :=
  fst (e_first a) :: app (snd (e_first a)) (dotted dotc (e_rest a) (eq_tail (e_w1 a) (e_w2 a) (e_lit_cells a []))).

Lemma e_txt_app a k : app (e_txt a) k =
  fst (e_first a) :: app (snd (e_first a)) (dotted dotc (e_rest a) (eq_tail (e_w1 a) (e_w2 a) (e_lit_cells a k))).
Proof.
  unfold e_txt, eq_tail, e_lit_cells. cbn [app]. rewrite <- app_assoc, dotted_app.
  repeat rewrite <- app_assoc. cbn [app]. rewrite <- app_assoc. reflexivity.
Qed.

Lemma dq_ws_free c k : crune c = 34%Z -> ws_free (c :: k).
Proof. intros H. cbn. rewrite H. reflexivity. Qed.

Lemma e_parse a k : astop k -> spec (PRef "MatchExpression") (app (e_txt a) k) (VExpr (e_exp a)) k.
Proof.
  intros _. rewrite e_txt_app.
  pose proof (selector_spec dotc (e_first a) (e_rest a) _ eq_refl
               (sel_stop_eq_tail (e_w1 a) (e_w2 a) (e_lit_cells a k) (e_ws1 a)) (e_ok1 a) (e_ok2 a)) as Hsel.
  eapply ref_ok; [reflexivity|]. cbn [rexpr]. apply spec_j. apply choice_ok. apply specc_here. apply spec_j.
  eapply ref_ok; [reflexivity|]. cbn [rexpr]. eapply action_ok.
  - apply seq_ok.
    eapply seqs_cons; [apply lab_ok; exact Hsel|].
    eapply seqs_cons.
    + apply lab_ok. apply choice_ok. apply specc_here. apply spec_j.
      apply (match_equal_spec (e_w1 a) (e_w2 a) (e_lit_cells a k) (e_ws1 a) (e_ws2 a)).
      apply dq_ws_free. exact (e_hq a).
    + eapply seqs_cons; [|apply seqs_nil]. apply lab_ok.
      exact (value_quoted_spec (e_q a) (e_x a) (e_cs a) (e_q' a) k (e_lit a) (e_hq a) (e_hq' a) (e_hx a) (e_body a) (e_unq a)).
  - intros G. reflexivity.
Qed.

Lemma e_not_paren a k : head_not 40 (app (e_txt a) k).
Proof. rewrite e_txt_app. cbn. exact (proj1 (head_letter _ (proj1 (e_ok1 a)))). Qed.
Lemma e_head a k : ws_free (app (e_txt a) k).
Proof. rewrite e_txt_app. cbn. exact (proj2 (head_letter _ (proj1 (e_ok1 a)))). Qed.
Lemma e_not_not a k : fspecj not_alt1 (app (e_txt a) k).
Proof.
  rewrite e_txt_app. apply faction. apply fseq. apply fseqs_here.
  refine (fails_f (head_not 110) _ _ (fails_lit 110 [111; 116]%Z) _). cbn. exact (e_not_n a).
Qed.

(* both families together *)
Definition atom2 := (atom + eqatom)%type.
Definition atxt2 (a : atom2) : list cell := match a with inl a => atxt a | inr a => e_txt a end.
Definition aexp2 (a : atom2) : expr := match a with inl a => aexp a | inr a => e_exp a end.

Theorem c16_skeleton_parse2 input e t w0 w1 :
  rOr atom2 atxt2 aexp2 Empty_set htxt0 hop0 hsel0 hbind0 e t -> Forall is_ws w0 -> Forall is_ws w1 ->
  utf8_cells input = app w0 (app t w1) -> all_valid (utf8_cells input) ->
  exists f0, forall f, (f0 <= f)%nat -> exists n, parse go_grammar None action_sem pred_sem f input = Accepted (VExpr e) n.
Proof.
  apply (c16_parse_round_trip atom2 atxt2 aexp2).
  - intros [a|a] k; [apply atom_parse| apply e_parse].
  - intros [a|a] k; [apply atom_not_paren| apply e_not_paren].
  - intros [a|a] k; [apply atom_not_not| apply e_not_not].
  - intros [a|a] k; [apply atom_head| apply e_head].
  - apply hdr_parse0.
  - apply hdr_and_fails0.
  - apply hdr_head0.
Qed.
Print Assumptions c16_skeleton_parse2.
