From Coq Require Import List ZArith String Ascii Bool NArith Lia.
Import ListNotations.
From Bexpr Require Import Base Strconv Ast Univ Eval.
Open Scope string_scope.

(* well-typedness of a value for a type; structural on the value.
   Named pointer / interface / container types are outside the universe. *)
Definition plain_named (u : gtype) : bool :=
  match u with TPtr _ | TIface | TSlice _ | TArray _ _ | TMap _ _ | TStruct _ _ | TNamed _ _ => false | _ => true end.

Fixpoint wt (t : gtype) (v : gval) {struct v} : bool :=
  match t, v with
  | TNamed _ u, _ => plain_named u &&
      match u, v with
      | TBool, VBool _ | TInt _, VInt _ | TUint _, VUint _ | TUintptr, VUint _ | TF32, VF32 _ | TF64, VF64 _ | TString, VStr _ => true
      | (TComplex | TChan | TFunc | TUnsafe), VOpaque => true
      | _, _ => false end
  | TBool, VBool _ | TInt _, VInt _ | TUint _, VUint _ | TUintptr, VUint _ | TF32, VF32 _ | TF64, VF64 _ | TString, VStr _ => true
  | (TComplex | TChan | TFunc | TUnsafe), VOpaque => true
  | TPtr _, VNilPtr => true
  | TPtr t', VPtr v' => wt t' v'
  | TIface, VNilIface => true
  | TIface, VIface dyn v' => (match dyn with TIface => false | _ => true end) && wt dyn v'
  | TSlice t', VSlice _ l => forallb (wt t') l
  | TArray n t', VArray l => Nat.eqb (List.length l) n && forallb (wt t') l
  | TMap tk tv, VMap _ kvs => forallb (fun kv => wt tk (fst kv) && wt tv (snd kv)) kvs
  | TStruct _ fs, VStruct vs =>
      (fix go (vs : list gval) (fs : list fdecl) {struct vs} : bool :=
         match vs, fs with
         | [], [] => true
         | v' :: vs', FD _ _ _ ft :: fs' => wt ft v' && go vs' fs'
         | _, _ => false end) vs fs
  | _, _ => false
  end.

Definition rwt (x : rv) : Prop := match x with None => True | Some (t, v) => wt t v = true end.

(* a well-typed value whose kind is scalar has the matching shape, so the typed accessors do not panic *)
Lemma eq_fn_total l t v : wt t v = true ->
  match sclass_of (kind_of_type t), l with
  | SBool, LBool _ | SInt, LInt _ | SUint, LUint _ | SF32, LF32 _ | SF64, LF64 _ | SString, LStr _ =>
      eq_fn (sclass_of (kind_of_type t)) l (Some (t, v)) <> None
  | _, _ => True end.
Proof.
  intros H.
  destruct t as [ | w | w | | | | | | | | | n u | | | | | | ]; try (destruct w); destruct l; cbn; try exact I;
    destruct v; cbn in H; try discriminate; cbn; try discriminate.
  all: try (apply andb_prop in H; destruct H as [Hp H]).
  all: destruct u as [ | w | w | | | | | | | | | n' u' | | | | | | ]; try (destruct w); cbn in *; try exact I; try discriminate.
Qed.

Lemma coerce_class k raw l : coerce k raw = Ok l ->
  match sclass_of k, l with
  | SBool, LBool _ | SInt, LInt _ | SUint, LUint _ | SF32, LF32 _ | SF64, LF64 _ | SString, LStr _ | SNone, LStr _ => True
  | _, _ => False end.
Proof.
  unfold coerce. destruct (sclass_of k).
  - destruct (parse_bool raw); intros [= <-]; exact I.
  - destruct (parse_int raw 0 64); intros [= <-]; exact I.
  - destruct (parse_uint raw 0 64); intros [= <-]; exact I.
  - destruct (parse_float raw 32); intros [= <-]; exact I.
  - destruct (parse_float raw 64); intros [= <-]; exact I.
  - intros [= <-]; exact I.
  - intros [= <-]; exact I.
Qed.

Lemma coerce_no_panic k raw : coerce k raw <> RPanic.
Proof.
  unfold coerce. destruct (sclass_of k); try discriminate;
  match goal with |- context [match ?x with _ => _ end] => destruct x end; discriminate.
Qed.

(* eq_fn on a well-typed value, with the literal coerced for the value's own kind, never panics *)
Lemma eq_fn_np t v raw l : wt t v = true -> coerce (kind_of_type t) raw = Ok l ->
  sclass_of (kind_of_type t) <> SNone -> eq_fn (sclass_of (kind_of_type t)) l (Some (t, v)) <> None.
Proof.
  intros Hw Hc Hs. pose proof (coerce_class _ _ _ Hc) as Hcl. pose proof (eq_fn_total l t v Hw) as Ht.
  destruct (sclass_of (kind_of_type t)), l; try tauto.
Qed.

(* ---- preservation of well-typedness by the reflect operations ---- *)
Lemma wt_ptr t x : wt t (VPtr x) = true -> exists t', t = TPtr t' /\ wt t' x = true.
Proof. destruct t; cbn; try discriminate; eauto. intros H. apply andb_prop in H. destruct H as [_ H]. destruct t; discriminate. Qed.
Lemma wt_nilptr t : wt t VNilPtr = true -> exists t', t = TPtr t'.
Proof. destruct t; cbn; try discriminate; eauto. intros H. apply andb_prop in H. destruct H as [_ H]. destruct t; discriminate. Qed.
Lemma wt_iface t dyn x : wt t (VIface dyn x) = true -> t = TIface /\ wt dyn x = true /\ dyn <> TIface.
Proof. destruct t; cbn; try discriminate.
  - intros H. apply andb_prop in H. destruct H as [_ H]. destruct t; discriminate.
  - intros H. apply andb_prop in H. destruct H as [Hd H]. repeat split; auto. destruct dyn; try discriminate; intros; discriminate. Qed.
Lemma wt_slice t n l : wt t (VSlice n l) = true -> exists t', t = TSlice t' /\ forallb (wt t') l = true.
Proof. destruct t; cbn; try discriminate; eauto. intros H. apply andb_prop in H. destruct H as [_ H]. destruct t; discriminate. Qed.
Lemma wt_array t l : wt t (VArray l) = true -> exists n t', t = TArray n t' /\ forallb (wt t') l = true.
Proof. destruct t; cbn; try discriminate.
  - intros H. apply andb_prop in H. destruct H as [_ H]. destruct t; discriminate.
  - intros H. apply andb_prop in H. destruct H. eauto. Qed.
Lemma wt_map t n kvs : wt t (VMap n kvs) = true -> exists tk tv, t = TMap tk tv /\ forallb (fun kv => wt tk (fst kv) && wt tv (snd kv)) kvs = true.
Proof. destruct t; cbn; try discriminate; eauto. intros H. apply andb_prop in H. destruct H as [_ H]. destruct t; discriminate. Qed.

Lemma r_elem_wt x : rwt x -> rwt (r_elem x).
Proof.
  destruct x as [[t v]|]; cbn; auto. destruct v; cbn; auto; intros H.
  - destruct (wt_ptr _ _ H) as [t' [-> Hw]]. cbn. exact Hw.
  - destruct (wt_iface _ _ _ H) as [_ [Hw _]]. exact Hw.
Qed.
Lemma r_indirect_wt x : rwt x -> rwt (r_indirect x).
Proof. intros H. unfold r_indirect. destruct (kind_of x); auto using r_elem_wt. Qed.
Lemma strip_iface_wt x : rwt x -> rwt (strip_iface x).
Proof. intros H. unfold strip_iface. destruct (kind_of x); auto using r_elem_wt. Qed.
Lemma strip_ptrs_wt n : forall x, rwt x -> rwt (strip_ptrs n x).
Proof. induction n as [|n IH]; intros x H; cbn [strip_ptrs]; auto. destruct (kind_of x); auto using r_elem_wt. Qed.
Lemma r_interface_wt x : rwt x -> rwt (r_interface x).
Proof. destruct x as [[t v]|]; cbn; auto. destruct v; cbn; auto. intros H. destruct (wt_iface _ _ _ H) as [_ [Hw _]]. exact Hw. Qed.

Lemma deref_gval_wt : forall v t, wt t v = true ->
  match deref_gval t v with Some (t', x) => wt t' x = true /\ t' = deref_type t | None => True end.
Proof.
  induction v; intros t H; cbn [deref_gval]; try (split; [exact H|]; destruct t; cbn in *; try discriminate; reflexivity); auto.
  - destruct (wt_ptr _ _ H) as [t' [-> Hw]]. cbn. apply IHv. exact Hw.
Qed.
Lemma deref_value_wt x : rwt x -> match deref_value x with Some (t', v) => wt t' v = true | None => True end.
Proof. destruct x as [[t v]|]; cbn; auto. intros H. pose proof (deref_gval_wt v t H). destruct (deref_gval t v) as [[t' y]|]; tauto. Qed.

Lemma forallb_Forall {A} (p : A -> bool) l : forallb p l = true -> Forall (fun x => p x = true) l.
Proof. intros H. rewrite forallb_forall in H. apply Forall_forall. exact H. Qed.

Lemma map_rwt t l : Forall (fun x => wt t x = true) l -> Forall rwt (map (fun x => Some (t, x)) l).
Proof. induction 1; cbn; constructor; cbn; auto. Qed.

Lemma r_elems_wt x : rwt x -> match r_elems x with Some els => Forall rwt els | None => True end.
Proof.
  destruct x as [[t v]|]; cbn; auto. intros H.
  destruct v as [b|z|z|z|z|s0| | |p| |dyn p|n l|l|n kvs|fs]; cbn; auto.
  - destruct (wt_slice t n l H) as [t' [-> Hl]]. apply map_rwt. apply forallb_Forall. exact Hl.
  - destruct (wt_array t l H) as [k [t' [-> Hl]]]. apply map_rwt. apply forallb_Forall. exact Hl.
Qed.
Lemma r_elems_some x : rwt x -> match kind_of x with KSlice | KArray => r_elems x <> None | _ => True end.
Proof.
  destruct x as [[t v]|]; cbn [rwt kind_of]; auto. intros H.
  destruct v; try (destruct (kind_of_type t); cbn; try exact I; discriminate);
    destruct t as [ | w | w | | | | | | | | | nm u | | | | | | ]; try destruct w; cbn in H; try discriminate; cbn; try exact I;
    try (apply andb_prop in H; destruct H as [Hp H];
         destruct u as [ | w | w | | | | | | | | | nm' u' | | | | | | ]; try destruct w; cbn in *; try discriminate; exact I).
Qed.

(* ---- lookup preserves well-typedness and never panics ---- *)
Lemma wt_struct t vs : wt t (VStruct vs) = true -> exists n fs, t = TStruct n fs /\
  (fix go (vs : list gval) (fs : list fdecl) {struct vs} : bool :=
     match vs, fs with [], [] => true | v' :: vs', FD _ _ _ ft :: fs' => wt ft v' && go vs' fs' | _, _ => false end) vs fs = true.
Proof. destruct t; cbn; try discriminate; eauto. intros H. apply andb_prop in H. destruct H as [_ H]. destruct t; discriminate. Qed.

Lemma get_struct_wt tn part : forall fs vs cand ign,
  (fix go (vs : list gval) (fs : list fdecl) {struct vs} : bool :=
     match vs, fs with [], [] => true | v' :: vs', FD _ _ _ ft :: fs' => wt ft v' && go vs' fs' | _, _ => false end) vs fs = true ->
  (match cand with Some (t, v) => wt t v = true | None => True end) ->
  match get_struct tn part fs vs cand ign with FFound t v => wt t v = true | _ => True end.
Proof.
  induction fs as [|[name ex tags ft] fs IH]; intros vs cand ign Hgo Hc; cbn [get_struct].
  - destruct cand as [[t v]|]; auto. destruct ign; auto.
  - destruct vs as [|v vs]; [destruct cand as [[t v]|]; auto; destruct ign; auto|].
    apply andb_prop in Hgo. destruct Hgo as [Hv Hgo].
    destruct ex; cbn [negb]; [|apply IH; auto].
    destruct (String.eqb (tag_get tags tn) ""); [destruct (String.eqb name part); apply IH; auto|].
    destruct (contains_byte _ _); [exact I|].
    destruct (String.eqb (before_comma _) "-"); [destruct (String.eqb name part); apply IH; auto|].
    destruct (String.eqb (before_comma _) part); [exact Hv|apply IH; auto].
Qed.

Lemma map_find_wt tk tv kt k kvs : forallb (fun kv => wt tk (fst kv) && wt tv (snd kv)) kvs = true ->
  match map_find kt k kvs with Some v => wt tv v = true | None => True end.
Proof.
  induction kvs as [|[k' v'] kvs IH]; cbn; auto. intros H. apply andb_prop in H. destruct H as [H1 H2].
  apply andb_prop in H1. destruct H1 as [_ Hv]. cbn in Hv. destruct (map_key_eqb kt k' k); [exact Hv | apply IH; exact H2].
Qed.

Lemma nth_error_wt t l : forall n, forallb (wt t) l = true -> match nth_error l n with Some x => wt t x = true | None => True end.
Proof.
  induction l as [|a l IH]; intros [|n] H; cbn; auto; cbn in H; apply andb_prop in H; destruct H as [Ha Hl]; [exact Ha|apply IH; exact Hl].
Qed.

Definition res_wt (r : result rv) : Prop := match r with Ok x => rwt x | Err _ => True | RPanic => False end.

Lemma coerce_key_np part kt : coerce_key part kt <> RPanic.
Proof. unfold coerce_key. destruct (kind_of_type kt); try discriminate;
  match goal with |- context [match ?x with _ => _ end] => destruct x end; try discriminate; destruct (String.eqb _ _); discriminate. Qed.

Lemma get_step_wt cfg part x : rwt x -> res_wt (get_step cfg part x).
Proof.
  intros H. unfold get_step.
  pose proof (strip_ptrs_wt 8 _ (strip_iface_wt _ H)) as H'.
  destruct (strip_ptrs 8 (strip_iface x)) as [[t v]|]; [|exact I]. cbn in H'.
  destruct v as [b|z|z|z|z|s0| | |p| |dyn p|n l|l|n kvs|fs]; try exact I.
  - destruct (wt_slice t n l H') as [t' [-> Hl]].
    destruct (parse_int _ _ _) as [i|]; [|exact I]. destruct (_ || _); [exact I|].
    pose proof (nth_error_wt t' l (Z.to_nat i) Hl). destruct (nth_error l _); [|exact I]. cbn. assumption.
  - destruct (wt_array t l H') as [k [t' [-> Hl]]].
    destruct (parse_int _ _ _) as [i|]; [|exact I]. destruct (_ || _); [exact I|].
    pose proof (nth_error_wt t' l (Z.to_nat i) Hl). destruct (nth_error l _); [|exact I]. cbn. assumption.
  - destruct (wt_map t n kvs H') as [tk [tv [-> Hk]]].
    pose proof (coerce_key_np part (key_type (TMap tk tv))) as Hnp.
    destruct (coerce_key part _) as [k| |]; [|exact I|congruence].
    pose proof (map_find_wt tk tv (key_type (TMap tk tv)) k kvs Hk). destruct (map_find _ k kvs); [|exact I]. cbn. assumption.
  - destruct (wt_struct t fs H') as [nm [fds [-> Hgo]]]. cbn [under].
    pose proof (get_struct_wt (if String.eqb (tagname cfg) "" then "pointer" else tagname cfg) part fds fs None false Hgo I) as Hs.
    destruct (get_struct _ part fds fs None false); try exact I. cbn. exact Hs.
Qed.

(* a value-transformation hook is admissible when it maps well-typed values to well-typed values (identity, unwrapping a
   field, a constant, the nil-returning hook: all of the harness family); no hook at all is the special case None *)
Definition hook_ok (cfg : config) : Prop :=
  match hook cfg with None => True | Some h => forall v, rwt v -> rwt (h v) end.
Lemma hook_none_ok cfg : hook cfg = None -> hook_ok cfg.
Proof. unfold hook_ok. intros ->. exact I. Qed.

Lemma get_loop_wt cfg parts : hook_ok cfg -> forall x, rwt x -> res_wt (get_loop cfg parts x).
Proof.
  intros Hh. induction parts as [|p ps IH]; intros x H; cbn [get_loop]; [exact H|].
  pose proof (get_step_wt cfg p x H) as Hs. destruct (get_step cfg p x) as [nxt|e|]; cbn in Hs; try tauto; try exact I.
  unfold hook_ok in Hh. destruct (hook cfg) as [h|]; [|apply IH; exact Hs].
  pose proof (Hh nxt Hs) as Hn. destruct (h nxt) as [[t v]|] eqn:E; [|exact I].
  apply IH. exact Hn.
Qed.

Lemma get_wt cfg parts x : hook_ok cfg -> rwt x -> res_wt (get cfg parts x).
Proof.
  intros Hh H. unfold get. destruct parts; [exact H|].
  pose proof (get_loop_wt cfg (s :: parts) Hh x H) as Hl. destruct (get_loop cfg (s :: parts) x); cbn in *; try tauto.
  apply r_interface_wt. exact Hl.
Qed.

(* ---- operators never panic on well-typed values ---- *)
Section Ops.
Variable re : string -> string -> option bool.
Local Opaque coerce.

Lemma do_equal_np r v : rwt v -> do_equal (Some r) v <> Panic.
Proof.
  intros H. unfold do_equal. destruct v as [[t x]|]; [|discriminate]. cbn [kind_of rwt] in *.
  pose proof (eq_fn_np t x r) as Hn. pose proof (coerce_no_panic (kind_of_type t) r) as Hp.
  destruct (sclass_of (kind_of_type t)) eqn:Es; try discriminate.
  all: destruct (coerce (kind_of_type t) r) as [l|e|] eqn:Ec; try discriminate; try congruence.
  all: specialize (Hn l H eq_refl); destruct (eq_fn _ l (Some (t, x))); try discriminate.
  all: exfalso; apply Hn; [discriminate|reflexivity].
Qed.

Lemma in_typed_np k raw l els : coerce k raw = Ok l -> sclass_of k <> SNone -> Forall rwt els ->
  (forall e t x, In e els -> deref_value e = Some (t, x) -> kind_of_type t = k) ->
  in_typed_elems (sclass_of k) l els <> Panic.
Proof.
  intros Hc Hs Hw. induction Hw as [|e els He _ IH]; intros Hk; cbn [in_typed_elems]; [discriminate|].
  pose proof (deref_value_wt e He) as Hd.
  destruct (deref_value e) as [[t x]|] eqn:Ed; [|apply IH; intros; eapply Hk; [right|]; eauto].
  assert (Hkt : kind_of_type t = k) by (eapply Hk; [left; reflexivity|exact Ed]). subst k.
  pose proof (eq_fn_np t x raw l Hd Hc Hs) as Hn.
  destruct (eq_fn _ l (Some (t, x))) as [[|]|]; [discriminate| |exfalso; apply Hn; reflexivity].
  apply IH. intros; eapply Hk; [right|]; eauto.
Qed.

Lemma in_iface_np raw els : Forall rwt els -> in_iface_elems raw els <> Panic.
Proof.
  induction 1 as [|e els He _ IH]; cbn [in_iface_elems]; [discriminate|].
  pose proof (deref_value_wt (r_elem e) (r_elem_wt e He)) as Hd.
  destruct (deref_value (r_elem e)) as [[t x]|]; [|exact IH].
  destruct (coerce (kind_of_type t) raw) as [l|c|] eqn:Ec; [| destruct c; try discriminate; exact IH | exact (fun _ => coerce_no_panic _ _ Ec)].
  destruct (sclass_of (kind_of_type t)) eqn:Es; try discriminate;
    (pose proof (eq_fn_np t x raw l Hd Ec) as Hn; rewrite Es in Hn;
     destruct (eq_fn _ l (Some (t, x))) as [[|]|]; [discriminate|exact IH|exfalso; apply Hn; [discriminate|reflexivity]]).
Qed.

Lemma deref_elem_kind t l e t' x : forallb (wt t) l = true -> In e (map (fun y => Some (t, y)) l) ->
  deref_value e = Some (t', x) -> kind_of_type t' = kind_of_type (deref_type t).
Proof.
  intros Hl Hin Hd. apply in_map_iff in Hin. destruct Hin as [y [<- Hy]]. cbn in Hd.
  rewrite forallb_forall in Hl. pose proof (deref_gval_wt y t (Hl y Hy)) as Hw. rewrite Hd in Hw. destruct Hw as [_ ->]. reflexivity.
Qed.

Lemma in_elems_np raw t l : forallb (wt t) l = true ->
  in_elems raw (deref_type t) (map (fun y => Some (t, y)) l) <> Panic.
Proof.
  intros Hl. unfold in_elems.
  assert (Hw : Forall rwt (map (fun y => Some (t, y)) l)) by (apply map_rwt; apply forallb_Forall; exact Hl).
  destruct (kind_of_type (deref_type t)) eqn:Ek.
  all: try (apply in_iface_np; exact Hw).
  all: rewrite <- Ek.
  all: destruct (coerce (kind_of_type (deref_type t)) raw) as [lt|c|] eqn:Ec; try discriminate; try (exfalso; exact (coerce_no_panic _ _ Ec)).
  all: destruct (sclass_of (kind_of_type (deref_type t))) eqn:Es; try discriminate.
  all: rewrite <- Es; apply (in_typed_np _ raw lt _ Ec); [rewrite Es; discriminate|exact Hw|intros e t' x Hin Hd; eapply deref_elem_kind; eauto].
Qed.

Lemma do_in_np r v : rwt v -> do_in (Some r) v <> Panic.
Proof.
  intros H. unfold do_in.
  destruct (coerce (kind_of v) r) as [mv|c|] eqn:Ec; [|discriminate|exact (fun _ => coerce_no_panic _ _ Ec)].
  pose proof (r_elems_some v H) as Hsome.
  destruct v as [[t x]|]; [|discriminate]. cbn [kind_of rwt] in *.
  destruct (kind_of_type t) eqn:Ek; try discriminate.
  - (* array kind *)
    destruct (r_elems (Some (t, x))) as [els|] eqn:Ee; [|congruence].
    destruct x as [b|z|z|z|z|s0| | |p| |dyn p|n l|l|n kvs|fs]; cbn in Ee; try discriminate.
    + destruct (wt_slice t n l H) as [t' [-> Hl]]. cbn in Ee. injection Ee as <-. apply in_elems_np. exact Hl.
    + destruct (wt_array t l H) as [k [t' [-> Hl]]]. cbn in Ee. injection Ee as <-. apply in_elems_np. exact Hl.
  - (* map kind *)
    destruct x; try discriminate. unfold in_map. destruct (type_eqb _ _); [discriminate|]. destruct (kind_of_type (key_type t)); discriminate.
  - (* slice kind *)
    destruct (r_elems (Some (t, x))) as [els|] eqn:Ee; [|congruence].
    destruct x as [b|z|z|z|z|s0| | |p| |dyn p|n l|l|n kvs|fs]; cbn in Ee; try discriminate.
    + destruct (wt_slice t n l H) as [t' [-> Hl]]. cbn in Ee. injection Ee as <-. apply in_elems_np. exact Hl.
    + destruct (wt_array t l H) as [k [t' [-> Hl]]]. cbn in Ee. injection Ee as <-. apply in_elems_np. exact Hl.
  - (* string kind *)
    destruct x; discriminate.
Qed.

Lemma do_is_empty_np v : rwt v -> do_is_empty v <> Panic.
Proof.
  intros H. unfold do_is_empty. destruct v as [[t x]|]; [|discriminate]. cbn [kind_of rwt] in *.
  destruct x as [b|z|z|z|z|s0| | |p| |dyn p|n l|l|n kvs|fs]; cbn [r_len];
    try (destruct (kind_of_type t); discriminate);
    destruct t as [ | w | w | | | | | | | | | nm u | | | | | | ]; try destruct w; cbn in H; try discriminate; cbn; try discriminate;
    try (apply andb_prop in H; destruct H as [Hp H];
         destruct u as [ | w | w | | | | | | | | | nm' u' | | | | | | ]; try destruct w; cbn in *; discriminate).
Qed.

Lemma do_matches_np r v : do_matches re (Some r) v <> Panic.
Proof. unfold do_matches. destruct (bytes_of v) as [[s|]|]; try discriminate. destruct (re r s); discriminate. Qed.

Lemma negate_np o : o <> Panic -> negate o <> Panic.
Proof. destruct o as [b [e|]|]; cbn; auto; discriminate. Qed.

Lemma json_narrow_wt v : rwt v -> match json_narrow v with Ok x => rwt x | Err _ => True | RPanic => False end.
Proof.
  destruct v as [[t x]|]; [|intros _; exact I]. intros H. unfold json_narrow.
  destruct x; try exact H.
  destruct (is_json_number t); [|exact H].
  destruct (parse_int s 10 64); [reflexivity|]. destruct (parse_float s 64); [reflexivity | exact I].
Qed.

Definition op_has_value (o : matchop) : bool := match o with OpIsEmpty | OpIsNotEmpty => false | _ => true end.

Lemma match_op_np op raw v : rwt v -> (op_has_value op = true -> raw <> None) -> match_op re op raw v <> Panic.
Proof.
  intros H Hr. unfold match_op. pose proof (json_narrow_wt v H) as Hj.
  destruct (json_narrow v) as [x|e|]; [|discriminate|contradiction].
  pose proof (r_indirect_wt x Hj) as Hi.
  destruct op; cbn in Hr;
    try (destruct raw as [r|]; [|exfalso; apply Hr; reflexivity]);
    try apply negate_np; auto using do_equal_np, do_in_np, do_is_empty_np, do_matches_np.
Qed.
End Ops.

