From Coq Require Import List ZArith String Ascii Bool NArith Lia.
Import ListNotations.
From Bexpr Require Import Base Ast Unicode Peg Typing Actions GoGrammar Sem Term Lex Lex2 Calc Calc2.
Open Scope string_scope.

(* C16, boolean skeleton: every rendering of a tree (free whitespace, redundant parentheses) parses back to the tree.
   Atoms (match expressions) are abstract: any family of texts that the MatchExpression rule reads. *)

Definition lit_cells (l : list Z) : list cell :=
  map (fun z => {| crune := z; cbytes := String (ascii_of_N (Z.to_N z)) ""; cvalid := true |}) l.
Definition K_not := lit_cells [110; 111; 116]%Z.
Definition K_and := lit_cells [97; 110; 100]%Z.
Definition K_or := lit_cells [111; 114]%Z.
Definition K_lp := lit_cells [40]%Z.
Definition K_rp := lit_cells [41]%Z.
Definition K_rb := lit_cells [125]%Z.
Definition ch125 : cell := {| crune := 125; cbytes := String (ascii_of_N (Z.to_N 125)) ""; cvalid := true |}.

Definition not_alt1 : pexpr :=
  PAction "NotExpression2" (PSeq [PLit [110; 111; 116]%Z false; PRef "_"; PLabeled "expr" (PRef "NotExpression")]).

Definition astop (k : list cell) : Prop := match k with [] => True | c :: _ => is_ws c \/ crune c = 41%Z \/ crune c = 125%Z end.
Definition stop_kw (c : Z) (k : list cell) : Prop :=
  ws_free k \/ exists x w rest, k = x :: app w rest /\ is_ws x /\ Forall is_ws w /\ ws_free rest /\ head_not c rest.
Definition stopA (k : list cell) : Prop := astop k /\ stop_kw 97 k.
Definition stopO (k : list cell) : Prop := stopA k /\ stop_kw 111 k.
Definition ws1 (w : list cell) : Prop := w <> [] /\ Forall is_ws w.

Lemma stop_kw_fseqs c l es k : stop_kw c k -> fseqs (PRef "_" :: PLit (c :: l) false :: es) k.
Proof.
  intros [H|[x [w [rest [E [Hx [Hw [Hr Hh]]]]]]]].
  - apply fseqs_here. exact (fails_f _ _ _ fails_ws H).
  - subst k. eapply fseqs_later; [exact (ws_plus_ok x w rest Hx Hw Hr)|].
    apply fseqs_here. exact (fails_f _ _ _ (fails_lit c l) Hh).
Qed.

Section Skeleton.
Variable atom : Type.
Variable atxt : atom -> list cell.
Variable aexp : atom -> expr.
Hypothesis atom_parse : forall a k, astop k -> spec (PRef "MatchExpression") (app (atxt a) k) (VExpr (aexp a)) k.
Hypothesis atom_not_paren : forall a k, head_not 40 (app (atxt a) k).
Hypothesis atom_not_not : forall a k, fspecj not_alt1 (app (atxt a) k).
Hypothesis atom_head : forall a k, ws_free (app (atxt a) k).

(* quantifier headers  any|all S as binding {  : abstract as well *)
Variable hdr : Type.
Variable htxt : hdr -> list cell.
Variable hop : hdr -> collop.
Variable hsel : hdr -> selector.
Variable hbind : hdr -> binding.
Definition hdr_elems : list pexpr :=
  [PLabeled "op" (PChoice [PRef "CollectionOpAny"; PRef "CollectionOpAll"]); PLabeled "selector" (PRef "Selector");
   PRef "_"; PLit [97; 115]%Z false; PRef "_"; PLabeled "binding" (PRef "CollectionIdentifiers"); POpt (PRef "_"); PLit [123]%Z false].
Definition hdr_frame (h : hdr) : frame := [("binding", VBind (hbind h)); ("selector", VSel (hsel h)); ("op", VCOp (hop h))].
Hypothesis hdr_parse : forall h K es K2 F2, seqs_ok es K K2 F2 -> seqs_ok (app hdr_elems es) (app (htxt h) K) K2 (app F2 (hdr_frame h)).
Hypothesis hdr_and_fails : forall h K, fspecj (PRef "AndExpression") (app (htxt h) K).
Hypothesis hdr_head : forall h K, ws_free (app (htxt h) K) /\ head_not 40 (app (htxt h) K).

Inductive rOr : expr -> list cell -> Prop :=
| r_or l r tl tr w1 w2 : rAnd l tl -> ws1 w1 -> ws1 w2 -> rOr r tr ->
    rOr (EBin BOr l r) (tl ++ w1 ++ K_or ++ w2 ++ tr)
| r_or_and e t : rAnd e t -> rOr e t
| r_coll h body tb w5 w6 : rOr body tb -> Forall is_ws w5 -> Forall is_ws w6 ->
    rOr (EColl (hop h) (hsel h) (hbind h) body) (htxt h ++ w5 ++ tb ++ w6 ++ K_rb)
with rAnd : expr -> list cell -> Prop :=
| r_and l r tl tr w1 w2 : rNot l tl -> ws1 w1 -> ws1 w2 -> rAnd r tr ->
    rAnd (EBin BAnd l r) (tl ++ w1 ++ K_and ++ w2 ++ tr)
| r_and_not e t : rNot e t -> rAnd e t
with rNot : expr -> list cell -> Prop :=
| r_not e t w : rNot e t -> ws1 w -> not_a_not e -> rNot (ENot e) (K_not ++ w ++ t)
| r_not_par e t : rPar e t -> rNot e t
with rPar : expr -> list cell -> Prop :=
| r_paren e t w1 w2 : rOr e t -> Forall is_ws w1 -> Forall is_ws w2 -> rPar e (K_lp ++ w1 ++ t ++ w2 ++ K_rp)
| r_atom a : rPar (aexp a) (atxt a).

Scheme rOr_min := Minimality for rOr Sort Prop
with rAnd_min := Minimality for rAnd Sort Prop
with rNot_min := Minimality for rNot Sort Prop
with rPar_min := Minimality for rPar Sort Prop.
Combined Scheme render_mutind from rOr_min, rAnd_min, rNot_min, rPar_min.

(* no rendering starts with whitespace *)
Lemma render_head :
  (forall e t, rOr e t -> forall k, ws_free (app t k)) /\ (forall e t, rAnd e t -> forall k, ws_free (app t k)) /\
  (forall e t, rNot e t -> forall k, ws_free (app t k)) /\ (forall e t, rPar e t -> forall k, ws_free (app t k)).
Proof.
  apply render_mutind; intros.
  - rewrite <- app_assoc. auto.
  - auto.
  - rewrite <- app_assoc. apply hdr_head.
  - rewrite <- app_assoc. auto.
  - auto.
  - reflexivity.
  - auto.
  - reflexivity.
  - apply atom_head.
Qed.

Lemma par_not_not e t : rPar e t -> forall k, fspecj not_alt1 (app t k).
Proof.
  intros H k. destruct H as [e t w1 w2 _ _ _|a].
  - apply faction. apply fseq. apply fseqs_here.
    refine (fails_f _ _ _ (fails_lit 110 [111; 116]%Z) _). cbn. discriminate.
  - apply atom_not_not.
Qed.

Ltac act := let G := fresh "G" in intros G; reflexivity.

Lemma astop_ws x w : is_ws x -> astop (x :: w).
Proof. intros H. left. exact H. Qed.

Lemma stopO_closer (rc : cell) w2 k : Forall is_ws w2 -> (crune rc = 41%Z \/ crune rc = 125%Z) -> stopO (app w2 (rc :: k)).
Proof.
  intros Hw2 Hrc.
  assert (Hfree : ws_free (rc :: k)) by (destruct Hrc as [E|E]; cbn; rewrite E; reflexivity).
  assert (Hn : forall c, (c = 97 \/ c = 111)%Z -> head_not c (rc :: k)) by (intros c [Ec|Ec]; destruct Hrc as [E|E]; cbn; rewrite E, Ec; discriminate).
  destruct w2 as [|x2 w2].
  - cbn [app]. repeat split; [right; exact Hrc| left; exact Hfree| left; exact Hfree].
  - inversion Hw2 as [|? ? Hx2 Hw2']; subst. cbn [app].
    repeat split; [left; exact Hx2| |]; right; exists x2, w2, (rc :: k); repeat split; try assumption; apply Hn; auto.
Qed.

Theorem skeleton_round_trip :
  (forall e t, rOr e t -> forall k, stopO k -> spec (PRef "OrExpression") (app t k) (VExpr e) k) /\
  (forall e t, rAnd e t -> forall k, stopA k -> spec (PRef "AndExpression") (app t k) (VExpr e) k) /\
  (forall e t, rNot e t -> forall k, astop k -> spec (PRef "NotExpression") (app t k) (VExpr e) k) /\
  (forall e t, rPar e t -> forall k, astop k -> spec (PRef "ParenthesizedExpression") (app t k) (VExpr e) k).
Proof.
  destruct render_head as [HhO [HhA [HhN HhP]]].
  apply render_mutind.
  - (* l or r *)
    intros l r tl tr w1 w2 Hl IHl [Hn1 Hw1] [Hn2 Hw2] Hr IHr k Hk.
    destruct w1 as [|x1 w1]; [congruence|]. destruct w2 as [|x2 w2]; [congruence|].
    inversion Hw1 as [|? ? Hx1 Hw1']; subst. inversion Hw2 as [|? ? Hx2 Hw2']; subst.
    repeat rewrite <- app_assoc. cbn [app].
    eapply ref_ok; [reflexivity|]. cbn [rexpr]. apply spec_j. apply choice_ok. apply specc_here.
    eapply action_ok.
    + apply seq_ok.
      eapply seqs_cons; [apply lab_ok; apply IHl|].
      { split; [apply astop_ws; exact Hx1|]. right. exists x1, w1, (app K_or (x2 :: app w2 (app tr k))).
        repeat split; try assumption; try reflexivity. cbn. discriminate. }
      eapply seqs_cons; [apply (ws_plus_ok x1 w1 _ Hx1 Hw1'); reflexivity|].
      eapply seqs_cons; [apply (lit_ok [111; 114]%Z K_or _ eq_refl)|].
      eapply seqs_cons; [apply (ws_plus_ok x2 w2 _ Hx2 Hw2'); apply (HhO _ _ Hr)|].
      eapply seqs_cons; [apply lab_ok; apply (IHr k Hk)|]. apply seqs_nil.
    + act.
  - (* an and-level rendering read at or level *)
    intros e t Ht IH k [HkA HkO].
    eapply ref_ok; [reflexivity|]. cbn [rexpr]. apply spec_j. apply choice_ok.
    apply specc_next.
    + apply faction. apply fseq. eapply fseqs_later; [apply lab_ok; apply (IH k HkA)|].
      apply stop_kw_fseqs. exact HkO.
    + apply specc_here. eapply action_ok; [apply lab_ok; apply (IH k HkA)| act].
  - (* any / all S as b { body } *)
    intros h body tb w5 w6 Hb IHb Hw5 Hw6 k Hk.
    repeat rewrite <- app_assoc.
    eapply ref_ok; [reflexivity|]. cbn [rexpr]. apply spec_j. apply choice_ok.
    apply specc_next; [apply faction; apply fseq; apply fseqs_here; apply flabeled; apply hdr_and_fails|].
    apply specc_next; [apply faction; apply flabeled; apply hdr_and_fails|].
    apply specc_here. eapply action_ok.
    { apply lab_ok. eapply ref_ok; [reflexivity|]. cbn [rexpr].
      eapply action_ok with (v' := VExpr (EColl (hop h) (hsel h) (hbind h) body)).
      + apply seq_ok.
        change (PLabeled "op" _ :: _) with (app hdr_elems [POpt (PRef "_"); PLabeled "expr" (PRef "OrExpression"); POpt (PRef "_"); PLit [125]%Z false]).
        apply hdr_parse.
        eapply seqs_cons; [apply (ws_opt_ok w5 _ Hw5); apply (HhO _ _ Hb)|].
        eapply seqs_cons; [apply lab_ok; apply (IHb _ (stopO_closer (ch125) w6 k Hw6 (or_intror eq_refl)))|].
        eapply seqs_cons; [apply (ws_opt_ok w6 _ Hw6); reflexivity|].
        eapply seqs_cons; [apply (lit_ok [125]%Z K_rb k eq_refl)|]. apply seqs_nil.
      + intros G. reflexivity. }
    intros G. reflexivity.
  - (* l and r *)
    intros l r tl tr w1 w2 Hl IHl [Hn1 Hw1] [Hn2 Hw2] Hr IHr k Hk.
    destruct w1 as [|x1 w1]; [congruence|]. destruct w2 as [|x2 w2]; [congruence|].
    inversion Hw1 as [|? ? Hx1 Hw1']; subst. inversion Hw2 as [|? ? Hx2 Hw2']; subst.
    repeat rewrite <- app_assoc. cbn [app].
    eapply ref_ok; [reflexivity|]. cbn [rexpr]. apply spec_j. apply choice_ok. apply specc_here.
    eapply action_ok.
    + apply seq_ok.
      eapply seqs_cons; [apply lab_ok; apply IHl; apply astop_ws; exact Hx1|].
      eapply seqs_cons; [apply (ws_plus_ok x1 w1 _ Hx1 Hw1'); reflexivity|].
      eapply seqs_cons; [apply (lit_ok [97; 110; 100]%Z K_and _ eq_refl)|].
      eapply seqs_cons; [apply (ws_plus_ok x2 w2 _ Hx2 Hw2'); apply (HhA _ _ Hr)|].
      eapply seqs_cons; [apply lab_ok; apply (IHr k Hk)|]. apply seqs_nil.
    + act.
  - (* a not-level rendering read at and level *)
    intros e t Ht IH k [Hka HkA].
    eapply ref_ok; [reflexivity|]. cbn [rexpr]. apply spec_j. apply choice_ok.
    apply specc_next.
    + apply faction. apply fseq. eapply fseqs_later; [apply lab_ok; apply (IH k Hka)|].
      apply stop_kw_fseqs. exact HkA.
    + apply specc_here. eapply action_ok; [apply lab_ok; apply (IH k Hka)| act].
  - (* not e *)
    intros e t w Ht IH [Hn Hw] Hnn k Hk.
    destruct w as [|x w]; [congruence|]. inversion Hw as [|? ? Hx Hw']; subst.
    repeat rewrite <- app_assoc. cbn [app].
    eapply ref_ok; [reflexivity|]. cbn [rexpr]. apply spec_j. apply choice_ok. apply specc_here.
    eapply action_ok.
    + apply seq_ok.
      eapply seqs_cons; [apply (lit_ok [110; 111; 116]%Z K_not _ eq_refl)|].
      eapply seqs_cons; [apply (ws_plus_ok x w _ Hx Hw'); apply (HhN _ _ Ht)|].
      eapply seqs_cons; [apply lab_ok; apply (IH k Hk)|]. apply seqs_nil.
    + intros G. destruct e; try reflexivity. contradiction.
  - (* a parenthesised or atomic rendering read at not level *)
    intros e t Ht IH k Hk.
    eapply ref_ok; [reflexivity|]. cbn [rexpr]. apply spec_j. apply choice_ok.
    apply specc_next; [exact (par_not_not e t Ht k)|].
    apply specc_here. eapply action_ok; [apply lab_ok; apply (IH k Hk)| act].
  - (* ( e ) *)
    intros e t w1 w2 Ht IH Hw1 Hw2 k Hk.
    repeat rewrite <- app_assoc.
    eapply ref_ok; [reflexivity|]. cbn [rexpr]. apply spec_j. apply choice_ok. apply specc_here.
    eapply action_ok.
    + apply seq_ok.
      eapply seqs_cons; [apply (lit_ok [40]%Z K_lp _ eq_refl)|].
      eapply seqs_cons; [apply (ws_opt_ok w1 _ Hw1); apply (HhO _ _ Ht)|].
      eapply seqs_cons; [apply lab_ok; apply IH|].
      { destruct w2 as [|x2 w2].
        - cbn [app]. repeat split; [right; left; reflexivity| left; reflexivity| left; reflexivity].
        - inversion Hw2 as [|? ? Hx2 Hw2']; subst. cbn [app].
          repeat split; [left; exact Hx2| |]; right; exists x2, w2, (app K_rp k);
            (repeat split; try assumption; try reflexivity; cbn; discriminate). }
      eapply seqs_cons; [apply (ws_opt_ok w2 _ Hw2); reflexivity|].
      eapply seqs_cons; [apply (lit_ok [41]%Z K_rp _ eq_refl)|]. apply seqs_nil.
    + act.
  - (* atom *)
    intros a k Hk.
    eapply ref_ok; [reflexivity|]. cbn [rexpr]. apply spec_j. apply choice_ok.
    apply specc_next.
    + apply faction. apply fseq. apply fseqs_here.
      exact (fails_f _ _ _ (fails_lit 40 []) (atom_not_paren a k)).
    + apply specc_here. eapply action_ok; [apply lab_ok; apply (atom_parse a k Hk)| act].
Qed.
End Skeleton.
Print Assumptions skeleton_round_trip.
