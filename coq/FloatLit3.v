(* Decimal float literals with an exponent - digits [. digits] (e|E) [+|-] digits, optionally signed: spellings only a quoted literal can have.
   The float parser model reads them as mant * 10^(ex - |fraction|) and rounds once; same statement as FloatLit2.number_literal_nearest. *)
From Coq Require Import List ZArith String Ascii Bool NArith Lia.
Import ListNotations.
From Bexpr Require Import Base Strconv C02 RoundRat RoundGuards FloatLit FloatLit2.
Open Scope string_scope.
Open Scope Z_scope.

Definition xsign_str (xsg : option bool) : string := match xsg with None => "" | Some true => "-" | Some false => "+" end.
Definition exp_val (xsg : option bool) (xs : list Z) : Z := match xsg with Some true => - dval xs 0 | _ => dval xs 0 end.
(* the unsigned text: digits, optional fraction, exponent marker ec (e or E), optional sign, digits *)
Definition sci_body (ip : list Z) (fo : option (list Z)) (ec : ascii) (xsg : option bool) (xs : list Z) : string :=
  dstr ip ++ (frac_str fo ++ String ec (xsign_str xsg ++ dstr xs)).

Lemma exp_part_spec xsg xs : xs <> [] -> Forall is_digit xs -> exp_part (xsign_str xsg ++ dstr xs) = Some (exp_val xsg xs).
Proof.
  intros Hne Hxs.
  assert (Hlen : 0 < Z.of_nat (List.length xs)) by (destruct xs; [contradiction|cbn [List.length]; lia]).
  assert (K : (0 + Z.of_nat (List.length xs) =? 0) = false) by (apply eqb_false; lia).
  destruct xsg as [[|]|]; cbn [xsign_str append exp_val].
  - unfold exp_part. change (b2z "-" =? 45) with true. change (b2z "-" =? 43) with false. cbn [orb]. cbv beta iota zeta.
    rewrite (digits_val_dstr_end xs Hxs). cbv beta iota zeta. rewrite K. reflexivity.
  - unfold exp_part. change (b2z "+" =? 45) with false. change (b2z "+" =? 43) with true. cbn [orb]. cbv beta iota zeta.
    rewrite (digits_val_dstr_end xs Hxs). cbv beta iota zeta. rewrite K. reflexivity.
  - destruct xs as [|x0 xs']; [contradiction|]. inversion Hxs as [|? ? H0 _]; subst. pose proof H0 as H0'. unfold is_digit in H0'.
    change (dstr (x0 :: xs')) with (String (digit_char x0) (dstr xs')).
    unfold exp_part. rewrite (b2z_digit x0 H0), (eqb_false (48 + x0) 45), (eqb_false (48 + x0) 43) by lia. cbn [orb]. cbv beta iota zeta.
    change (String (digit_char x0) (dstr xs')) with (dstr (x0 :: xs')).
    rewrite (digits_val_dstr_end (x0 :: xs') Hxs). cbv beta iota zeta. rewrite K. reflexivity.
Qed.

Lemma dec_tail_sci ip fo ec xsg xs neg p ebits emin emaxe :
  ip <> [] -> Forall is_digit ip -> frac_ok fo -> lower (b2z ec) = 101 -> (b2z ec < 48 \/ 57 < b2z ec) -> xs <> [] -> Forall is_digit xs ->
  let mant := dval (ip ++ frac_digits fo) 0 in
  let e10 := exp_val xsg xs - Z.of_nat (List.length (frac_digits fo)) in
  dec_tail (sci_body ip fo ec xsg xs) neg p ebits emin emaxe =
  if mant =? 0 then POk (float_bits neg (Some (0, emin)) p ebits)
  else if 310 <? e10 then PErr PRange
  else if Z.log2 mant + 1 + 3 * e10 <? -1100 then POk (float_bits neg (Some (0, emin)) p ebits)
  else match dec_round mant e10 p emin emaxe with None => PErr PRange | Some me => POk (float_bits neg (Some me) p ebits) end.
Proof.
  intros Hne Hip Hfo Hec Hecd Hxne Hxs mant e10.
  assert (Hlen : 0 < Z.of_nat (List.length ip)) by (destruct ip; [contradiction|cbn [List.length]; lia]).
  pose proof (exp_part_spec xsg xs Hxne Hxs) as HX.
  unfold sci_body, dec_tail. destruct fo as [fp|]; cbn [frac_str frac_digits append] in *.
  - rewrite (digits_val_dstr ip _ Hip) by (cbn [stops]; rewrite dot_code; lia).
    cbv beta iota zeta. rewrite dot_code. change (46 =? 46) with true. cbv beta iota zeta.
    rewrite (digits_val_dstr fp _ Hfo) by (cbn [stops]; exact Hecd). cbv beta iota zeta.
    replace (0 + Z.of_nat (List.length ip) + (0 + Z.of_nat (List.length fp)) =? 0) with false by (symmetry; apply Z.eqb_neq; lia).
    rewrite Hec. change (101 =? 101) with true. cbv beta iota zeta. rewrite HX. cbv beta iota zeta.
    assert (Em : dval ip 0 * 10 ^ (0 + Z.of_nat (List.length fp)) + dval fp 0 = mant).
    { unfold mant. rewrite dval_app, (dval_shift fp (dval ip 0)). rewrite Z.add_0_l. reflexivity. }
    rewrite Em. replace (exp_val xsg xs - (0 + Z.of_nat (List.length fp))) with e10 by (unfold e10; lia). reflexivity.
  - rewrite (digits_val_dstr ip _ Hip) by (cbn [stops]; exact Hecd).
    cbv beta iota zeta. destruct (Z.eqb_spec (b2z ec) 46) as [E46|_]; [rewrite E46 in Hec; vm_compute in Hec; discriminate|].
    cbv beta iota zeta.
    replace (0 + Z.of_nat (List.length ip) + 0 =? 0) with false by (symmetry; apply Z.eqb_neq; lia).
    rewrite Hec. change (101 =? 101) with true. cbv beta iota zeta. rewrite HX. cbv beta iota zeta.
    change (10 ^ 0) with 1. unfold mant. rewrite app_nil_r. replace (dval ip 0 * 1 + 0) with (dval ip 0) by lia.
    replace (exp_val xsg xs - 0) with e10 by (unfold e10; cbn [List.length]; lia). reflexivity.
Qed.
Lemma parse_float_unsigned_body sg u bits p ebits emin emaxe :
  (forall c t, parse_float_core (String c t) bits =
     let neg := b2z c =? 45 in let body := if (b2z c =? 43) || neg then t else String c t in
     if is_hex_b body then hex_tail body neg p ebits emin emaxe else dec_tail body neg p ebits emin emaxe) ->
  (exists d0 t, is_digit d0 /\ u = String (digit_char d0) t) -> has_us u = false -> is_hex_b u = false ->
  parse_float (sign_str sg ++ u) bits = dec_tail u sg p ebits emin emaxe.
Proof.
  intros U Hu HU HX.
  destruct Hu as (d0 & t & H0 & Eu). pose proof H0 as H0'. unfold is_digit in H0'.
  assert (NW : forall w0 w, (b2z w0 < 48 \/ 57 < b2z w0) -> String.eqb (lower_str u) (String w0 w) = false).
  { intros w0 w Hw. rewrite Eu. cbn [lower_str]. rewrite (b2z_digit d0 H0), lower_small by lia. fold (digit_char d0).
    cbn [String.eqb]. rewrite (digit_char_not w0 d0 H0 Hw). reflexivity. }
  destruct sg; cbn [sign_str append].
  - (* a leading minus *)
    unfold parse_float. destruct (bits =? 32); cbv beta iota zeta; change (b2z "-" =? 45) with true; change (b2z "-" =? 43) with false;
      cbn [orb negb]; cbv beta iota zeta; rewrite !NW by (vm_compute; right; reflexivity); cbn [orb andb];
      unfold parse_float_num; cbn [has_us]; change (b2z "-" =? 95) with false; cbn [orb]; rewrite HU;
      rewrite U; cbv zeta; change (b2z "-" =? 45) with true; change (b2z "-" =? 43) with false; cbn [orb]; rewrite HX; reflexivity.
  - (* no sign: the first byte is a digit *)
    assert (E1 : (b2z (digit_char d0) =? 45) = false) by (rewrite (b2z_digit d0 H0); apply eqb_false; lia).
    assert (E2 : (b2z (digit_char d0) =? 43) = false) by (rewrite (b2z_digit d0 H0); apply eqb_false; lia).
    pose proof HU as HU'. pose proof HX as HX'. pose proof NW as NW'. rewrite Eu in HU', HX' |- *.
    unfold parse_float. destruct (bits =? 32); cbv beta iota zeta; rewrite E1, E2; cbn [orb negb]; cbv beta iota zeta;
      rewrite <- Eu; rewrite !NW by (vm_compute; right; reflexivity); cbn [orb andb];
      unfold parse_float_num; rewrite HU; rewrite Eu, U; cbv zeta; rewrite E1, E2; cbn [orb]; rewrite HX'; reflexivity.
Qed.

Lemma has_us_dstr_app ds rest : Forall is_digit ds -> has_us (dstr ds ++ rest) = has_us rest.
Proof.
  induction 1 as [|d r Hd _ IH]; cbn [dstr append has_us]; [reflexivity|].
  rewrite (b2z_digit d Hd). unfold is_digit in Hd. rewrite (eqb_false (48 + d) 95) by lia. cbn [orb]. exact IH.
Qed.

Lemma sci_body_shape ip fo ec xsg xs :
  ip <> [] -> Forall is_digit ip -> frac_ok fo -> lower (b2z ec) = 101 -> Forall is_digit xs ->
  (exists d0 t, is_digit d0 /\ sci_body ip fo ec xsg xs = String (digit_char d0) t) /\
  has_us (sci_body ip fo ec xsg xs) = false /\ is_hex_b (sci_body ip fo ec xsg xs) = false.
Proof.
  intros Hne Hip Hfo Hec Hxs. unfold sci_body.
  assert (Hec95 : (b2z ec =? 95) = false).
  { destruct (Z.eqb_spec (b2z ec) 95) as [E|_]; [rewrite E in Hec; vm_compute in Hec; discriminate|reflexivity]. }
  assert (Hexp : has_us (String ec (xsign_str xsg ++ dstr xs)) = false).
  { cbn [has_us]. rewrite Hec95. cbn [orb].
    assert (T : has_us (dstr xs) = false).
    { pose proof (has_us_dstr_app xs "" Hxs) as T. rewrite app_empty in T. exact T. }
    destruct xsg as [[|]|]; cbn [xsign_str append has_us]; [change (b2z "-" =? 95) with false|change (b2z "+" =? 95) with false|]; cbn [orb]; exact T. }
  split; [|split].
  - destruct ip as [|d0 ip']; [contradiction|]. inversion Hip as [|? ? H0 _]; subst. eexists d0, _. split; [exact H0|reflexivity].
  - rewrite (has_us_dstr_app ip _ Hip). destruct fo as [fp|]; cbn [frac_str append].
    + cbn [has_us]. rewrite dot_code. change (46 =? 95) with false. cbn [orb]. rewrite (has_us_dstr_app fp _ Hfo). exact Hexp.
    + exact Hexp.
  - destruct ip as [|d0 ip']; [contradiction|]. inversion Hip as [|? ? H0 Hip']; subst.
    destruct ip' as [|d1 ip'']; cbn [dstr append].
    + destruct fo as [fp|]; cbn [frac_str append]; apply is_hex_b_2nd; [rewrite dot_code; vm_compute; discriminate|rewrite Hec; lia].
    + inversion Hip' as [|? ? H1 _]; subst. pose proof H1 as H1'. unfold is_digit in H1'.
      apply is_hex_b_2nd. rewrite (b2z_digit d1 H1), lower_small by lia. lia.
Qed.

(* the rational a decimal literal with exponent e10 denotes, as numerator and denominator *)
Definition dec_num (mant e10 : Z) : Z := if 0 <=? e10 then mant * 10 ^ e10 else mant.
Definition dec_den (e10 : Z) : Z := if 0 <=? e10 then 1 else 10 ^ (- e10).

Lemma dec_round_nd mant e10 p emin emaxe : dec_round mant e10 p emin emaxe = round_rat (dec_num mant e10) (dec_den e10) p emin emaxe.
Proof. unfold dec_round, dec_num, dec_den. destruct (0 <=? e10); reflexivity. Qed.

Theorem sci_literal_nearest sg ip fo ec xsg xs bits p ebits emin emaxe b :
  (bits = 64 /\ p = 53 /\ ebits = 11 /\ emin = -1074 /\ emaxe = 971) \/ (bits = 32 /\ p = 24 /\ ebits = 8 /\ emin = -149 /\ emaxe = 104) ->
  ip <> [] -> Forall is_digit ip -> frac_ok fo -> (ec = "e"%char \/ ec = "E"%char) -> xs <> [] -> Forall is_digit xs ->
  let mant := dval (ip ++ frac_digits fo) 0 in
  let e10 := exp_val xsg xs - Z.of_nat (List.length (frac_digits fo)) in
  let n := dec_num mant e10 in let d := dec_den e10 in
  0 < mant ->
  parse_float (sign_str sg ++ sci_body ip fo ec xsg xs) bits = POk b ->
  exists m e, b = float_bits sg (Some (m, e)) p ebits /\
    (0 <= m < 2 ^ p /\ emin <= e <= emaxe /\ (e = emin \/ 2 ^ (p - 1) <= m)) /\
    (forall m' e2, 0 <= m' < 2 ^ p -> emin <= e2 -> D n d m e * pn e2 <= D n d m' e2 * pn e) /\
    (2 * D n d m e = d * pp e -> Z.even m = true).
Proof.
  intros F Hne Hip Hfo Hecs Hxne Hxs mant e10 n d Hpos H.
  assert (Hec : lower (b2z ec) = 101) by (destruct Hecs as [->| ->]; reflexivity).
  assert (Hecd : b2z ec < 48 \/ 57 < b2z ec) by (destruct Hecs as [->| ->]; right; vm_compute; reflexivity).
  assert (Hfmt : is_format p emin emaxe) by (destruct F as [(_ & -> & _ & -> & ->)|(_ & -> & _ & -> & ->)]; [left|right]; repeat split).
  assert (U : forall c t, parse_float_core (String c t) bits =
     let neg := b2z c =? 45 in let body := if (b2z c =? 43) || neg then t else String c t in
     if is_hex_b body then hex_tail body neg p ebits emin emaxe else dec_tail body neg p ebits emin emaxe).
  { destruct F as [(-> & -> & -> & -> & ->)|(-> & -> & -> & -> & ->)]; [exact pfc_unfold64|exact pfc_unfold32]. }
  destruct (sci_body_shape ip fo ec xsg xs Hne Hip Hfo Hec Hxs) as (S1 & S2 & S3).
  rewrite (parse_float_unsigned_body sg _ bits p ebits emin emaxe U S1 S2 S3) in H.
  rewrite (dec_tail_sci ip fo ec xsg xs sg p ebits emin emaxe Hne Hip Hfo Hec Hecd Hxne Hxs) in H. cbv zeta in H. fold mant e10 in H.
  rewrite (eqb_false mant 0) in H by lia.
  assert (Hn : 0 < n).
  { unfold n, dec_num. destruct (Z.leb_spec 0 e10) as [L|L]; [|exact Hpos]. pose proof (Z.pow_pos_nonneg 10 e10 ltac:(lia) L). nia. }
  assert (Hd : 0 < d) by (unfold d, dec_den; destruct (Z.leb_spec 0 e10) as [L|L]; [lia|apply Z.pow_pos_nonneg; lia]).
  assert (R : exists m e, round_rat n d p emin emaxe = Some (m, e) /\ b = float_bits sg (Some (m, e)) p ebits).
  { pose proof (dec_round_nd mant e10 p emin emaxe) as Hr. fold n d in Hr.
    destruct (Z.ltb_spec 310 e10) as [O|O]; [discriminate|].
    destruct (Z.ltb_spec (Z.log2 mant + 1 + 3 * e10) (-1100)) as [G|G].
    - pose proof (decimal_underflow_guard mant e10 p emin emaxe Hfmt Hpos G) as Z0. rewrite Hr in Z0. exists 0, emin. split; [exact Z0|congruence].
    - rewrite Hr in H. destruct (round_rat n d p emin emaxe) as [[m e]|]; [|discriminate]. exists m, e. split; [reflexivity|congruence]. }
  destruct R as (m & e & R & ->). exists m, e.
  assert (Hp : 2 <= p) by (destruct F as [(_ & -> & _)|(_ & -> & _)]; lia).
  split; [reflexivity|split; [|split]].
  - apply (round_rat_canonical n d p emin emaxe m e Hn Hd ltac:(lia) R).
  - intros m' e2 Hm He2. apply (round_rat_nearest n d p emin emaxe m e m' e2 Hn Hd ltac:(lia) R Hm He2).
  - apply (round_rat_ties_to_even n d p emin emaxe m e Hn Hd Hp R).
Qed.

Example sci_examples :
  (sign_str true ++ sci_body [1] (Some [5]) "e" (Some true) [3] = "-1.5e-3" /\ sign_str false ++ sci_body [2] None "E" None [1; 0] = "2E10")%string /\
  parse_float "-1.5e-3" 64 = POk 13787932388781358842.
Proof. split; [split; reflexivity|vm_compute; reflexivity]. Qed.
