From Coq Require Import List ZArith String Bool NArith Lia.
Import ListNotations.
From Bexpr Require Import Base Ast Unicode Peg Typing Actions GoGrammar GrammarTypes TypingSound.
Open Scope string_scope.

Lemma find_action_in l id a : find_action l id = Some a -> In a l /\ aname a = id.
Proof. induction l as [|x l IH]; cbn; [discriminate|]. destruct (String.eqb (aname x) id) eqn:E.
  - intros [= <-]. split; [left; reflexivity|]. apply String.eqb_eq. exact E.
  - intros H. destruct (IH H). split; [right|]; assumption. Qed.

(* one table entry meets its signature *)
Definition entry_ok (a : action) : Prop := forall f text,
  (forall l t, In (l, t) (aparams a) -> has_ty t (lookup f l)) ->
  match arun a f text with AVal v | AErr v => has_ty (aret a) v | APanic => False end.

Lemma as_strs_typed v : has_ty (TList TStr) v -> exists r, as_strs v = Some r.
Proof.
  intros [l [-> Hl]]. cbn. induction Hl as [|x l [s ->] _ [r IH]]; cbn; [eauto|]. rewrite IH. eauto.
Qed.

Lemma params_forall (ps : list (string * vty)) (f : frame) :
  (forall l t, In (l, t) ps -> has_ty t (lookup f l)) -> Forall (fun p => has_ty (snd p) (lookup f (fst p))) ps.
Proof. intros H. apply Forall_forall. intros [l t] Hin. apply H. exact Hin. Qed.

Lemma as_strs_list l : Forall (has_ty TStr) l -> exists r, as_strs (VList l) = Some r.
Proof. intros H. apply as_strs_typed. exists l. auto. Qed.

Ltac crush_entry :=
  let f := fresh "f" in let text := fresh "text" in let H := fresh "H" in
  intros f text H; apply params_forall in H;
  cbn [arun aret aparams] in *; unfold ret_label, const, bin, match3 in *;
  repeat match goal with
  | H : Forall _ (_ :: _) |- _ => let a := fresh in let b := fresh in inversion H as [|? ? a b]; clear H; subst
  | H : Forall _ [] |- _ => clear H
  end;
  cbn [has_ty fst snd] in *;
  repeat match goal with
  | H : exists _, _ |- _ => destruct H
  | H : _ /\ _ |- _ => destruct H
  end;
  repeat match goal with H : lookup _ _ = _ |- _ => rewrite H in *; clear H end;
  repeat match goal with
  | H : Forall _ ?l |- context [as_strs (VList ?l)] =>
      let r := fresh "r" in let Hr := fresh in destruct (as_strs_list l H) as [r Hr]; rewrite Hr
  end.

Lemma actions_ok : Forall entry_ok actions.
Proof.
  unfold actions.
  repeat (constructor; [unfold entry_ok; crush_entry |]); try exact (Forall_nil _).
  all: try (cbn; eauto; fail).
  all: try (match goal with e : expr |- _ => destruct e end; cbn in *; eauto; fail).
  all: try (cbn; eexists; split; [reflexivity|]; cbn;
            match goal with Ho : op_has_value _ = _ |- _ => rewrite Ho end; split; [discriminate | first [reflexivity | intros; congruence]]).
  all: try (destruct (unquote _); cbn; eauto).
  all: try (match goal with |- context [stype ?s] => destruct (stype s) end; cbn; eauto; fail).
  all: try (eexists; split; [reflexivity|]; cbn; auto; fail).
  (* NotExpression2: fold a double negation, otherwise wrap *)
  match goal with x : expr, H : wf_ast ?x |- _ => destruct x; cbn in H |- * end;
    try (eexists; split; [reflexivity|]; cbn; tauto).
Qed.

(* C16: a tree the parser returns never has `not` directly under `not` *)
Fixpoint no_not_not (e : expr) : Prop :=
  match e with
  | ENot a => not_a_not a /\ no_not_not a
  | EBin _ a b => no_not_not a /\ no_not_not b
  | EMatch _ _ _ => True
  | EColl _ _ _ i => no_not_not i
  end.
Lemma wf_no_not_not e : wf_ast e -> no_not_not e.
Proof. induction e; cbn; intuition. Qed.

Lemma action_sem_ok id f text :
  (forall l t, In (l, t) (act_params id) -> has_ty t (lookup f l)) ->
  match action_sem id f text with AVal v | AErr v => has_ty (act_ret id) v | APanic => False end.
Proof.
  unfold action_sem, act_params, act_ret. destruct (find_action actions id) as [a|] eqn:E; [|intros _; exact I].
  destruct (find_action_in _ _ _ E) as [Hin _].
  pose proof actions_ok as Hok. rewrite Forall_forall in Hok. apply (Hok a Hin).
Qed.

(* C10, model level: whatever the bytes, the budget and the fuel, an accepted parse yields a well-formed expression tree *)
Theorem c10_accepted_is_expression mx fuel input v n :
  parse go_grammar mx action_sem pred_sem fuel input = Accepted v n -> exists e, v = VExpr e /\ wf_ast e.
Proof.
  intros H.
  assert (Hg : exists r0 rules, go_grammar = r0 :: rules /\ rname r0 = "Input") by (unfold go_grammar; eexists; eexists; split; reflexivity).
  destruct Hg as [r0 [rules [Eg Hn]]].
  pose proof (parse_typed go_grammar mx action_sem pred_sem rule_ty act_params act_ret go_grammar_typed action_sem_ok (fun _ _ => eq_refl)
                fuel input v n r0 rules Eg H) as Ht.
  rewrite Hn in Ht. exact Ht.
Qed.

Theorem c16_no_double_not mx fuel input v n :
  parse go_grammar mx action_sem pred_sem fuel input = Accepted v n -> exists e, v = VExpr e /\ no_not_not e.
Proof. intros H. destruct (c10_accepted_is_expression mx fuel input v n H) as [e [-> Hw]]. eauto using wf_no_not_not. Qed.

(* C04 / C07 / C16: what the actions build, by computation on the table *)
Lemma c04_contains_is_in f t : action_sem "MatchContains1" f t = AVal (VMOp OpIn) /\ action_sem "MatchNotContains1" f t = AVal (VMOp OpNotIn)
  /\ action_sem "MatchIn1" f t = AVal (VMOp OpIn) /\ action_sem "MatchNotIn1" f t = AVal (VMOp OpNotIn).
Proof. repeat split. Qed.
Lemma c04_same_tree_both_orders f t : action_sem "MatchSelectorOpValue1" f t = action_sem "MatchValueOpSelector2" f t.
Proof. reflexivity. Qed.
Lemma c07_selector2_builds_path a r t :
  action_sem "Selector2" [("rest", VList (map VStr r)); ("first", VStr a)] t = AVal (VSel {| stype := SelBexpr; spath := a :: r |}).
Proof.
  assert (H : forall l, as_strs (VList (map VStr l)) = Some l) by (induction l as [|x l IH]; cbn in *; [reflexivity|rewrite IH; reflexivity]).
  assert (E : action_sem "Selector2" = fun f _ => match lookup f "first", as_strs (lookup f "rest") with
            | VStr a, Some r => AVal (VSel {| stype := SelBexpr; spath := a :: r |}) | _, _ => APanic end) by reflexivity.
  rewrite E. cbv beta.
  change (lookup [("rest", VList (map VStr r)); ("first", VStr a)] "first") with (VStr a).
  change (lookup [("rest", VList (map VStr r)); ("first", VStr a)] "rest") with (VList (map VStr r)).
  rewrite H. reflexivity.
Qed.
Lemma c16_not_folding e t : action_sem "NotExpression2" [("expr", VExpr (ENot e))] t = AVal (VExpr e).
Proof. reflexivity. Qed.
Lemma c16_string_value x t : action_sem "Value8" [("s", VStr x)] t = AVal (VMV x) /\ action_sem "Value5" [("n", VStr x)] t = AVal (VMV x).
Proof. split; reflexivity. Qed.

Print Assumptions c10_accepted_is_expression.
Print Assumptions c16_no_double_not.
