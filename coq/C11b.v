(* C11: WithMaxExpressions(0) is no budget (CreateEvaluator forwards only a non-zero budget; newParser maps 0 to
   MaxUint64).  Kept apart from Glue.v so that it depends on the grammar table only as a term, not on its typing. *)
From Coq Require Import List ZArith String Bool NArith.
Import ListNotations.
From Bexpr Require Import Base Strconv Ast Unicode Peg Actions GoGrammar Univ Eval Api.
Open Scope string_scope.

Definition the_parse (mx : option N) (fuel : nat) (src : string) : option expr :=
  match parse go_grammar mx action_sem pred_sem fuel src with Accepted (VExpr e) _ => Some e | _ => None end.

Theorem c11_zero_is_unlimited fuel src os : o_max (get_opts os) = 0%N ->
  create (fun mx s => the_parse mx fuel s) src os = create (fun mx s => the_parse mx fuel s) src (app os [OMaxExpr 0]).
Proof. intros H. symmetry. apply c18_neutral_budget_zero. exact H. Qed.
Print Assumptions c11_zero_is_unlimited.
