From Coq Require Import List ZArith String Ascii Bool NArith Lia.
Import ListNotations.
From Bexpr Require Import Base Ast Unicode Peg Typing Actions GoGrammar Sem Term Lex Lex2 Lex3 Calc Calc2 Skel Top Atoms StrLit AtomsEq Spell C07 Ptr.
Open Scope string_scope.

(* A selector in any spelling, as one abstraction: its text, the value the Selector rule reads, and the head facts atoms need. *)
Definition sstop (K : list cell) : Prop := seg_stop K /\ no_dot_no_bracket K.

Record selr := {
  s_txt : list cell; s_val : selector;
  s_spec : forall K, sstop K -> spec (PRef "Selector") (app s_txt K) (VSel s_val) K;
  s_head : exists c r, s_txt = c :: r /\ crune c <> 40%Z /\ crune c <> 110%Z /\ class_match cls_ws (crune c) = false }.

Lemma segs_cells_app segs k1 k2 : app (segs_cells segs k1) k2 = segs_cells segs (app k1 k2).
Proof.
  induction segs as [|sg r IH]; cbn [segs_cells]; [reflexivity|].
  destruct sg; cbn [seg_cells]; repeat (cbn [app]; rewrite <- ?app_assoc); rewrite IH; reflexivity.
Qed.

(* bexpr spellings: name, then parts each as .name / .digits / ["lit"] *)
Definition of_mixed (c : cell) (cs : list cell) (segs : list seg)
  (Hh : class_match cls_id_head (crune c) = true) (Ht : id_tail_ok cs) (Hs : Forall seg_ok segs) (Hn : crune c <> 110%Z) : selr.
Proof.
  refine {| s_txt := c :: app cs (segs_cells segs []);
            s_val := {| stype := SelBexpr; spath := cells_str (c :: cs) :: map seg_part segs |} |}.
  - intros K [Hk1 Hk2]. cbn [app]. rewrite <- app_assoc, segs_cells_app. cbn [app].
    exact (selector_mixed c cs segs K Hh Ht Hs Hk1 Hk2).
  - exists c, (app cs (segs_cells segs [])). split; [reflexivity|].
    destruct (head_letter _ Hh) as [H1 H2]. auto.
Defined.

Lemma psegs_cells_app ps k1 k2 : app (psegs_cells ps k1) k2 = psegs_cells ps (app k1 k2).
Proof. induction ps as [|p r IH]; cbn [psegs_cells]; [reflexivity|]. cbn [app]. rewrite <- app_assoc, IH. reflexivity. Qed.

(* JSON-pointer spelling *)
Definition of_pointer (q : cell) (ps : list pseg) (q' : cell) (parts : list string)
  (Hq : crune q = 34%Z) (Hq' : crune q' = 34%Z) (Hok : Forall pseg_ok ps) (Hne : parts <> [])
  (E : map pseg_str ps = map ptr_escape parts) : selr.
Proof.
  refine {| s_txt := q :: psegs_cells ps [q']; s_val := {| stype := SelJsonPtr; spath := parts |} |}.
  - intros K _. cbn [app]. rewrite psegs_cells_app. cbn [app].
    exact (selector_pointer_parts q ps q' K parts Hq Hq' Hok Hne E).
  - exists q, (psegs_cells ps [q']). split; [reflexivity|]. rewrite Hq. repeat split; try discriminate; try reflexivity.
Defined.

Lemma s_head_not_paren sr k : head_not 40 (app (s_txt sr) k).
Proof. destruct (s_head sr) as [c [r [E [H1 _]]]]. rewrite E. exact H1. Qed.
Lemma s_head_free sr k : ws_free (app (s_txt sr) k).
Proof. destruct (s_head sr) as [c [r [E [_ [_ H3]]]]]. rewrite E. exact H3. Qed.
Lemma s_head_not_not sr k : fspecj not_alt1 (app (s_txt sr) k).
Proof.
  destruct (s_head sr) as [c [r [E [_ [H2 _]]]]]. rewrite E. apply faction. apply fseq. apply fseqs_here.
  exact (fails_f (head_not 110) _ (app (c :: r) k) (fails_lit 110 [111; 116]%Z) H2).
Qed.
Lemma sstop_ws0 c k : is_ws c -> sstop (c :: k).
Proof.
  intros H. destruct (ws_rune c H) as [E|[E|[E|E]]]; repeat split; cbn; rewrite E; try reflexivity; discriminate.
Qed.
Print Assumptions of_pointer.
