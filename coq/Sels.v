From Coq Require Import List ZArith String Ascii Bool NArith Lia.
Import ListNotations.
From Bexpr Require Import Base Ast Unicode Peg Typing Actions GoGrammar Sem Term Lex Lex2 Lex3 Calc Calc2 Skel Top Atoms StrLit AtomsEq Spell C07 Ptr KwMiss.
Open Scope string_scope.

(* A selector in any spelling, as one abstraction: its text, the value the Selector rule reads, and the head facts atoms need. *)
Definition sstop (K : list cell) : Prop := seg_stop K /\ no_dot_no_bracket K.

(* s_nn: the text is not the beginning of `not <expression>` (for a name: it is not the keyword `not` itself) *)
Record selr := {
  s_txt : list cell; s_val : selector;
  s_spec : forall K, sstop K -> spec (PRef "Selector") (app s_txt K) (VSel s_val) K;
  s_head : exists c r, s_txt = c :: r /\ crune c <> 40%Z /\ crune c <> 61%Z /\ crune c <> 33%Z /\ class_match cls_ws (crune c) = false;
  s_nn : forall K, sstop K -> fspecj not_alt1 (app s_txt K) }.

Lemma id_head_tail z : class_match cls_id_head z = true -> class_match cls_id_tail z = true.
Proof.
  unfold class_match. cbn. rewrite !orb_false_r. intros H.
  apply orb_true_iff in H. destruct H as [H|H]; apply andb_true_iff in H; destruct H as [H1 H2];
    repeat (apply orb_true_iff; (left; apply andb_true_iff; split; assumption) || right); fail.
Qed.

Lemma segs_cells_app segs k1 k2 : app (segs_cells segs k1) k2 = segs_cells segs (app k1 k2).
Proof.
  induction segs as [|sg r IH]; cbn [segs_cells]; [reflexivity|].
  destruct sg; cbn [seg_cells]; repeat (cbn [app]; rewrite <- ?app_assoc); rewrite IH; reflexivity.
Qed.

Lemma id_head_not_sym z : class_match cls_id_head z = true -> z <> 61%Z /\ z <> 33%Z.
Proof.
  unfold class_match. cbn. rewrite !orb_false_r. intros H. split; intros E; rewrite E in H; cbn in H; discriminate.
Qed.

Lemma seg_cells_id_stop segs K : Forall seg_ok segs -> seg_stop K -> id_stop (segs_cells segs K).
Proof.
  intros Hs Hk. destruct segs as [|sg r]; [exact (proj1 Hk)|]. cbn [segs_cells].
  destruct sg as [c0 cs0|d ds|lb w1 q cs0 q' w2 rb lit]; cbn [seg_cells]; cbn; try reflexivity.
  inversion Hs as [|? ? Hsg _]; subst. destruct Hsg as [Hlb _]. rewrite Hlb. reflexivity.
Qed.

Lemma seg_cells_not_ws sg r K x rest : seg_ok sg -> segs_cells (sg :: r) K = x :: rest -> ~ is_ws x.
Proof.
  intros Hsg E Hx. cbn [segs_cells] in E.
  destruct sg as [c0 cs0|d ds|lb w1 q cs0 q' w2 rb lit]; cbn [seg_cells] in E; inversion E; subst x.
  - vm_compute in Hx. discriminate.
  - vm_compute in Hx. discriminate.
  - destruct Hsg as [Hlb _]. unfold is_ws in Hx. rewrite Hlb in Hx. vm_compute in Hx. discriminate.
Qed.

(* a name followed by parts and a continuation against a keyword: the text is not the keyword followed by a blank unless the name
   IS the keyword and nothing is selected below it *)
Lemma mixed_vs_kw kw c cs segs K : Forall id_rune kw ->
  class_match cls_id_head (crune c) = true -> id_tail_ok cs -> Forall seg_ok segs -> seg_stop K ->
  map crune (c :: cs) <> kw \/ segs <> [] ->
  all_valid (c :: app cs (segs_cells segs K)) -> kw_miss kw (c :: app cs (segs_cells segs K)).
Proof.
  intros Hkw Hh Ht Hs Hk1 Hn Hv.
  change (c :: app cs (segs_cells segs K)) with (app (c :: cs) (segs_cells segs K)) in *.
  assert (Hcs : Forall (fun x => id_rune (crune x)) (c :: cs)).
  { constructor; [exact (id_head_tail _ Hh)| exact Ht]. }
  destruct (ident_vs_kw _ Hkw (c :: cs) (segs_cells segs K) Hcs (seg_cells_id_stop segs K Hs Hk1) Hv)
    as [H|[Hm [x [r [E Hx]]]]]; [exact H|].
  exfalso. destruct Hn as [Hn|Hn]; [exact (Hn Hm)|].
  destruct segs as [|sg rs]; [contradiction|].
  exact (seg_cells_not_ws sg rs K x r (Forall_inv Hs) E Hx).
Qed.

(* bexpr spellings: name, then parts each as .name / .digits / ["lit"]; the name alone is not the keyword `not` *)
Definition of_mixed (c : cell) (cs : list cell) (segs : list seg)
  (Hh : class_match cls_id_head (crune c) = true) (Ht : id_tail_ok cs) (Hs : Forall seg_ok segs)
  (Hn : map crune (c :: cs) <> [110; 111; 116]%Z \/ segs <> []) : selr.
Proof.
  refine {| s_txt := c :: app cs (segs_cells segs []);
            s_val := {| stype := SelBexpr; spath := cells_str (c :: cs) :: map seg_part segs |} |}.
  - intros K [Hk1 Hk2]. cbn [app]. rewrite <- app_assoc, segs_cells_app. cbn [app].
    exact (selector_mixed c cs segs K Hh Ht Hs Hk1 Hk2).
  - exists c, (app cs (segs_cells segs [])). split; [reflexivity|].
    destruct (head_letter _ Hh) as [H1 H2]. destruct (id_head_not_sym _ Hh) as [H3 H4]. auto.
  - intros K [Hk1 Hk2]. cbn [app]. rewrite <- app_assoc, segs_cells_app. cbn [app].
    apply faction. apply fseq. apply kw_miss_fseqs. intros Hv.
    apply mixed_vs_kw; try assumption. repeat constructor.
Defined.

Lemma psegs_cells_app ps k1 k2 : app (psegs_cells ps k1) k2 = psegs_cells ps (app k1 k2).
Proof. induction ps as [|p r IH]; cbn [psegs_cells]; [reflexivity|]. cbn [app]. rewrite <- app_assoc, IH. reflexivity. Qed.

(* JSON-pointer spelling *)
Definition of_pointer (q : cell) (ps : list pseg) (q' : cell) (parts : list string)
  (Hq : crune q = 34%Z) (Hq' : crune q' = 34%Z) (Hok : Forall pseg_ok ps) (Hne : parts <> [])
  (E : map pseg_str ps = map ptr_escape parts) : selr.
Proof.
  refine {| s_txt := q :: psegs_cells ps [q']; s_val := {| stype := SelJsonPtr; spath := parts |} |}.
  - intros K _. cbn [app]. rewrite psegs_cells_app. cbn [app].
    exact (selector_pointer_parts q ps q' K parts Hq Hq' Hok Hne E).
  - exists q, (psegs_cells ps [q']). split; [reflexivity|]. rewrite Hq. repeat split; try discriminate; try reflexivity.
  - intros K _. cbn [app]. apply faction. apply fseq. apply fseqs_here.
    refine (fails_f (head_not 110) _ _ (fails_lit 110 [111; 116]%Z) _). cbn. rewrite Hq. discriminate.
Defined.

Lemma s_head_not_paren sr k : head_not 40 (app (s_txt sr) k).
Proof. destruct (s_head sr) as [c [r [E [H1 _]]]]. rewrite E. exact H1. Qed.
Lemma s_head_free sr k : ws_free (app (s_txt sr) k).
Proof. destruct (s_head sr) as [c [r [E [_ [_ [_ H3]]]]]]. rewrite E. exact H3. Qed.
Lemma s_head_not_not sr k : sstop k -> fspecj not_alt1 (app (s_txt sr) k).
Proof. exact (s_nn sr k). Qed.
Lemma s_head_not_sym sr k : head_not 61 (app (s_txt sr) k) /\ head_not 33 (app (s_txt sr) k).
Proof. destruct (s_head sr) as [c [r [E [_ [H2 [H3 _]]]]]]. rewrite E. split; assumption. Qed.
Lemma sstop_ws0 c k : is_ws c -> sstop (c :: k).
Proof.
  intros H. destruct (ws_rune c H) as [E|[E|[E|E]]]; repeat split; cbn; rewrite E; try reflexivity; discriminate.
Qed.
Print Assumptions of_pointer.
