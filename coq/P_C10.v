(* Property C10 - creating an evaluator is total on arbitrary bytes: evaluator xor error, no panic.
   Statements only; proofs are in C10.v, AbortErr.v, TermBexpr.v, Glue.v (over the table regenerated from grammar.go). *)
From Coq Require Import List String NArith.
From Bexpr Require Import Base Ast Unicode Peg Typing Actions GoGrammar AbortErr C10 TermBexpr Api Glue Canon CanonId ModelApi.

(* whatever the bytes, the budget and the fuel: an accepted parse yields an expression tree, and a well-formed one
   (so the `ast.(grammar.Expression)` assertion of CreateEvaluator cannot fail, and every node kind is one Evaluate and
   ExpressionDump handle) *)
Theorem c10_accepted_is_expression : forall mx fuel input v n,
  parse go_grammar mx action_sem pred_sem fuel input = Accepted v n -> exists e, v = VExpr e /\ wf_ast e.
Proof. exact c10_accepted_is_expression. Qed.
Print Assumptions c10_accepted_is_expression.

(* a rejected parse carries at least one error: never (nil, nil) *)
Theorem c10_rejected_has_error : forall mx fuel input k n m,
  parse go_grammar mx action_sem pred_sem fuel input = Rejected k n m -> k <> 0%nat.
Proof. intros mx. exact (parse_rejected_has_error go_grammar mx action_sem pred_sem). Qed.
Print Assumptions c10_rejected_has_error.

(* the parser returns for every byte string *)
Theorem c10_terminates : forall input, exists fuel, parse go_grammar None action_sem pred_sem fuel input <> NoFuel.
Proof. exact c10_terminates. Qed.
Print Assumptions c10_terminates.

Theorem c10_total : forall input, exists fuel,
  (exists e n, parse go_grammar None action_sem pred_sem fuel input = Accepted (VExpr e) n /\ wf_ast e) \/
  (exists k n m, parse go_grammar None action_sem pred_sem fuel input = Rejected k n m /\ k <> 0%nat).
Proof. exact c10_total. Qed.
Print Assumptions c10_total.

(* CreateEvaluator succeeds exactly when Parse accepts, and then holds Parse's well-formed tree and the source text *)
Theorem c10_create_agrees : forall fuel src os,
  match create (fun mx s => the_parse mx fuel s) src os with
  | Some ev => exists n, parse go_grammar (if N.eqb (o_max (get_opts os)) 0 then None else Some (o_max (get_opts os))) action_sem pred_sem fuel src
                          = Accepted (VExpr (ev_ast ev)) n /\ ev_src ev = src /\ wf_ast (ev_ast ev)
  | None => forall e n, parse go_grammar (if N.eqb (o_max (get_opts os)) 0 then None else Some (o_max (get_opts os))) action_sem pred_sem fuel src
                          <> Accepted (VExpr e) n
  end.
Proof. exact c10_create_agrees. Qed.
Print Assumptions c10_create_agrees.

(* the same for the executable entry point the correspondence check runs *)
Theorem c10_model_parse_shape : forall mx s,
  match model_parse mx s with
  | Accepted v _ => exists e, v = VExpr e /\ wf_ast e
  | Rejected k _ _ => k <> 0%nat
  | NoFuel => True
  end.
Proof.
  intros mx s. unfold model_parse. rewrite canon_go_id.
  destruct (parse go_grammar mx action_sem pred_sem big_fuel s) as [v n|k n m|] eqn:E.
  - exact (C10.c10_accepted_is_expression mx big_fuel s v n E).
  - exact (parse_rejected_has_error go_grammar mx action_sem pred_sem big_fuel s k n m E).
  - exact I.
Qed.
Print Assumptions c10_model_parse_shape.
