(* Finer ties between the action code in /repo and the hand-written action semantics (Actions.v): the code blocks of
   a family of rules, as regenerated from grammar.go on every run, still equal the committed copy the semantics was
   written against.  ActionsPin.actions_pinned is the tie for all fifty blocks (C15, C16); the restricted forms below
   let a property that rests on part of the action semantics only (C07: the selector rules; C04: the match rules) go
   into SEARCH when that part changes and stay quiet when another part does. *)
From Coq Require Import List String Bool.
From Bexpr Require Import Base Ast Unicode Peg GoGrammar ActionsPinned.
Import ListNotations.
Open Scope string_scope.

Definition action_row := (string * list string * list string * list string)%type.
Definition row_name (a : action_row) : string := let '(n, _, _, _) := a in n.
Definition about (rules : list string) (tbl : list action_row) : list action_row :=
  filter (fun a => existsb (fun p => String.prefix p (row_name a)) rules) tbl.

Definition selector_rules : list string :=
  ["Selector"; "JsonPointerSegment"; "Identifier"; "SelectorOrIndex"; "IndexExpression"; "StringLiteral"].
Definition match_rules : list string := ["Match"; "Value"; "NumberLiteral"; "StringLiteral"].

(* the two ties themselves are in ActionsPinSel.v and ActionsPinMatch.v, one file each, so that an edit to a selector action does not
   stop the statement file of C04 and an edit to a match action not that of C07 (fourth batch of harmless refactors, refactor54) *)
(* the restrictions are not empty: they keep 12 and 21 of the 50 blocks *)
Lemma selector_actions_count : List.length (about selector_rules pinned_actions) = 12.
Proof. reflexivity. Qed.
Lemma match_actions_count : List.length (about match_rules pinned_actions) = 21.
Proof. reflexivity. Qed.
