From Coq Require Import List ZArith String Bool NArith Lia.
Import ListNotations.
From Bexpr Require Import Base Ast Unicode Peg FuelMono.
Open Scope string_scope.

(* A declarative big-step semantics of the PEG dialect the engine implements: ordered choice, sequences with
   backtracking, predicates, labels in frames, actions that may report errors or abort. No fuel, no iteration bound. *)
Section Sem.
Variable g : list rule.
Variable action_sem : string -> frame -> string -> ares.
Variable pred_sem : string -> frame -> bool * bool.

Definition tk (s : st) : st := {| inp := inp s; cnt := N.succ (cnt s); nerr := nerr s; fr := fr s |}.
Definition in_frame (s : st) (r : res) : res := bindr r (fun ok v s' => Done ok v (set_fr s' (fr s))).

Definition is_leaf (e : pexpr) : bool :=
  match e with PAndCode _ | PNotCode _ | PAny | PClass _ | PLit _ _ => true | _ => false end.
Definition no_rec : pexpr -> st -> res := fun _ _ => OutOfFuel.

Definition k_action (id : string) (start : list cell) : bool -> pv -> st -> res := fun ok v s' =>
  if ok then match action_sem id (fr s') (text_between start (inp s')) with
             | AVal v' => Done true v' s' | AErr v' => Done true v' (add_err s') | APanic => Abort AbPanic (add_err s') end
  else Done false v s'.

Inductive sem : pexpr -> st -> res -> Prop :=
| sem_tick e s r : semb e (tk s) r -> sem e s r
with semb : pexpr -> st -> res -> Prop :=
| sb_leaf e s : is_leaf e = true -> semb e s (body g action_sem pred_sem no_rec 0 e s)
| sb_action id b s r : sem b s r -> semb (PAction id b) s (bindr r (k_action id (inp s)))
| sb_and b s r : semw b s r -> semb (PAnd b) s (bindr r (fun ok _ s' => Done ok VNil (set_inp s' (inp s))))
| sb_not b s r : semw b s r -> semb (PNot b) s (bindr r (fun ok _ s' => Done (negb ok) VNil (set_inp s' (inp s))))
| sb_choice alts s r : semc alts s r -> semb (PChoice alts) s r
| sb_seq es s r : sems es (inp s) [] s r -> semb (PSeq es) s r
| sb_labeled l b s r : semw b s r -> semb (PLabeled l b) s (bindr r (fun ok v s' => Done ok v (if ok then bind_label s' l v else s')))
| sb_ref n ru s r : find_rule g n = Some ru -> semw (rexpr ru) s r -> semb (PRef n) s r
| sb_ref_undefined n s : find_rule g n = None -> semb (PRef n) s (Done false VNil (add_err s))
| sb_star b s r : semr b [] s r -> semb (PStar b) s r
| sb_plus_ok b s v s1 r : semw b s (Done true v s1) -> semr b [v] s1 r -> semb (PPlus b) s r
| sb_plus_fail b s v s1 : semw b s (Done false v s1) -> semb (PPlus b) s (Done false VNil s1)
| sb_plus_abort b s c s1 : semw b s (Abort c s1) -> semb (PPlus b) s (Abort c s1)
| sb_opt b s r : semw b s r -> semb (POpt b) s (bindr r (fun ok v s' => Done true (if ok then v else VNil) s'))
(* evaluate in a fresh label frame, then give the caller its frame back *)
with semw : pexpr -> st -> res -> Prop :=
| sw e s r : sem e (set_fr s []) r -> semw e s (in_frame s r)
(* ordered choice *)
with semc : list pexpr -> st -> res -> Prop :=
| sc_nil s : semc [] s (Done false VNil s)
| sc_ok a alts s v s1 : semw a s (Done true v s1) -> semc (a :: alts) s (Done true v s1)
| sc_next a alts s v s1 r : semw a s (Done false v s1) -> semc alts s1 r -> semc (a :: alts) s r
| sc_abort a alts s c s1 : semw a s (Abort c s1) -> semc (a :: alts) s (Abort c s1)
(* sequence: all or nothing *)
with sems : list pexpr -> list cell -> list pv -> st -> res -> Prop :=
| ss_nil start acc s : sems [] start acc s (Done true (VList (rev acc)) s)
| ss_ok a es start acc s v s1 r : sem a s (Done true v s1) -> sems es start (v :: acc) s1 r -> sems (a :: es) start acc s r
| ss_fail a es start acc s v s1 : sem a s (Done false v s1) -> sems (a :: es) start acc s (Done false VNil (set_inp s1 start))
| ss_abort a es start acc s c s1 : sem a s (Abort c s1) -> sems (a :: es) start acc s (Abort c s1)
(* greedy repetition *)
with semr : pexpr -> list pv -> st -> res -> Prop :=
| sr_more b acc s v s1 r : semw b s (Done true v s1) -> semr b (v :: acc) s1 r -> semr b acc s r
| sr_stop b acc s v s1 : semw b s (Done false v s1) -> semr b acc s (Done true (VList (rev acc)) s1)
| sr_abort b acc s c s1 : semw b s (Abort c s1) -> semr b acc s (Abort c s1).

(* ===== soundness: whatever the engine returns (other than running out of fuel) is derivable ===== *)
Notation pe := (pe g None action_sem pred_sem).

Section R.
Variable r : pexpr -> st -> res.
Hypothesis Hr : forall e s x, r e s = x -> x <> OutOfFuel -> sem e s x.

Lemma bindr_noof (x : res) k : bindr x k <> OutOfFuel -> x <> OutOfFuel.
Proof. destruct x; cbn; auto; discriminate. Qed.

Lemma wf_sound e s x : with_frame (r e) s = x -> x <> OutOfFuel -> semw e s x.
Proof. intros <- Hx. unfold with_frame in *. apply (sw e s (r e (set_fr s []))). apply Hr; [reflexivity|]. exact (bindr_noof _ _ Hx). Qed.

Lemma choice_sound alts : forall s x, choice r alts s = x -> x <> OutOfFuel -> semc alts s x.
Proof.
  induction alts as [|a alts IH]; intros s x <- Hx; cbn [choice] in *; [constructor|].
  pose proof (wf_sound a s _ eq_refl (bindr_noof _ _ Hx)) as Ha.
  destruct (with_frame (r a) s) as [[|] v s1|c s1|]; cbn [bindr] in *; [eapply sc_ok; exact Ha| |eapply sc_abort; exact Ha|congruence].
  eapply sc_next; [exact Ha|]. apply IH; [reflexivity|exact Hx].
Qed.

Lemma seq_sound es start : forall acc s x, seq r es start acc s = x -> x <> OutOfFuel -> sems es start acc s x.
Proof.
  induction es as [|a es IH]; intros acc s x <- Hx; cbn [seq] in *; [constructor|].
  pose proof (Hr a s _ eq_refl (bindr_noof _ _ Hx)) as Ha.
  destruct (r a s) as [[|] v s1|c s1|]; cbn [bindr] in *; [|eapply ss_fail; exact Ha|eapply ss_abort; exact Ha|congruence].
  eapply ss_ok; [exact Ha|]. apply IH; [reflexivity|exact Hx].
Qed.

Lemma star_sound k b : forall acc s x, star r k b acc s = x -> x <> OutOfFuel -> semr b acc s x.
Proof.
  induction k as [|k IH]; intros acc s x <- Hx; cbn [star] in *; [congruence|].
  pose proof (wf_sound b s _ eq_refl (bindr_noof _ _ Hx)) as Hb.
  destruct (with_frame (r b) s) as [[|] v s1|c s1|]; cbn [bindr] in *; [|eapply sr_stop; exact Hb|eapply sr_abort; exact Hb|congruence].
  eapply sr_more; [exact Hb|]. apply IH; [reflexivity|exact Hx].
Qed.

Lemma body_sound fuel e s x : body g action_sem pred_sem r fuel e s = x -> x <> OutOfFuel -> semb e s x.
Proof.
  intros <- Hx. destruct e; cbn [body] in *.
  - apply (sb_action id e s (r e s)). apply Hr; [reflexivity|exact (bindr_noof _ _ Hx)].
  - apply (sb_leaf (PAndCode id) s eq_refl).
  - apply (sb_leaf (PNotCode id) s eq_refl).
  - apply sb_and. apply wf_sound; [reflexivity|exact (bindr_noof _ _ Hx)].
  - apply sb_not. apply wf_sound; [reflexivity|exact (bindr_noof _ _ Hx)].
  - apply (sb_leaf PAny s eq_refl).
  - apply (sb_leaf (PClass c) s eq_refl).
  - apply (sb_leaf (PLit s0 ic) s eq_refl).
  - apply sb_choice. apply choice_sound; [reflexivity|exact Hx].
  - apply sb_seq. apply seq_sound; [reflexivity|exact Hx].
  - apply sb_labeled. apply wf_sound; [reflexivity|exact (bindr_noof _ _ Hx)].
  - destruct (find_rule g name) as [ru|] eqn:Ef; [|apply sb_ref_undefined; exact Ef].
    eapply sb_ref; [exact Ef|]. apply wf_sound; [reflexivity|exact Hx].
  - apply sb_star. apply star_sound with (k := fuel); [reflexivity|exact Hx].
  - pose proof (wf_sound e s _ eq_refl (bindr_noof _ _ Hx)) as Hb.
    destruct (with_frame (r e) s) as [[|] v s1|c s1|]; cbn [bindr] in *; [|eapply sb_plus_fail; exact Hb|eapply sb_plus_abort; exact Hb|congruence].
    eapply sb_plus_ok; [exact Hb|]. apply star_sound with (k := fuel); [reflexivity|exact Hx].
  - apply sb_opt. apply wf_sound; [reflexivity|exact (bindr_noof _ _ Hx)].
Qed.
End R.

Theorem engine_sound fuel : forall e s x, pe fuel e s = x -> x <> OutOfFuel -> sem e s x.
Proof.
  induction fuel as [|f IH]; intros e s x <- Hx; cbn [Peg.pe] in *; [congruence|].
  apply sem_tick. unfold step, tick in *. apply (body_sound (pe f) IH f); [reflexivity|exact Hx].
Qed.

(* ===== completeness: whatever is derivable is what the engine returns once it has enough fuel ===== *)
Scheme sem_mut := Induction for sem Sort Prop
with semb_mut := Induction for semb Sort Prop
with semw_mut := Induction for semw Sort Prop
with semc_mut := Induction for semc Sort Prop
with sems_mut := Induction for sems Sort Prop
with semr_mut := Induction for semr Sort Prop.
Combined Scheme sem_all_ind from sem_mut, semb_mut, semw_mut, semc_mut, sems_mut, semr_mut.

Definition from (f0 : nat) (C : nat -> res) (x : res) : Prop := forall f, (f0 <= f)%nat -> C f = x.

Lemma leaf_body_any_rec e r1 r2 f1 f2 s : is_leaf e = true ->
  body g action_sem pred_sem r1 f1 e s = body g action_sem pred_sem r2 f2 e s.
Proof. destruct e; cbn; try discriminate; reflexivity. Qed.

Theorem engine_complete_all :
  (forall e s x, sem e s x -> exists f0, from f0 (fun f => pe f e s) x) /\
  (forall e s x, semb e s x -> exists f0, from f0 (fun f => body g action_sem pred_sem (pe f) f e s) x) /\
  (forall e s x, semw e s x -> exists f0, from f0 (fun f => with_frame (pe f e) s) x) /\
  (forall alts s x, semc alts s x -> exists f0, from f0 (fun f => choice (pe f) alts s) x) /\
  (forall es start acc s x, sems es start acc s x -> exists f0, from f0 (fun f => seq (pe f) es start acc s) x) /\
  (forall b acc s x, semr b acc s x -> exists f0, forall f k, (f0 <= f)%nat -> (f0 <= k)%nat -> star (pe f) k b acc s = x).
Proof.
  apply sem_all_ind; unfold from; intros.
  - (* tick *) destruct H as [f0 H]. exists (S f0). intros f Hf. destruct f as [|f]; [lia|]. cbn [Peg.pe]. unfold step, tick. apply H. lia.
  - (* leaf *) exists 0%nat. intros f _. apply leaf_body_any_rec. exact e0.
  - (* action *) destruct H as [f0 H]. exists f0. intros f Hf. cbn [body]. rewrite (H f Hf). reflexivity.
  - destruct H as [f0 H]. exists f0. intros f Hf. cbn [body]. rewrite (H f Hf). reflexivity.
  - destruct H as [f0 H]. exists f0. intros f Hf. cbn [body]. rewrite (H f Hf). reflexivity.
  - destruct H as [f0 H]. exists f0. intros f Hf. cbn [body]. apply H. exact Hf.
  - destruct H as [f0 H]. exists f0. intros f Hf. cbn [body]. apply H. exact Hf.
  - destruct H as [f0 H]. exists f0. intros f Hf. cbn [body]. rewrite (H f Hf). reflexivity.
  - (* ref *) destruct H as [f0 H]. exists f0. intros f Hf. cbn [body]. rewrite e. apply H. exact Hf.
  - exists 0%nat. intros f _. cbn [body]. rewrite e. reflexivity.
  - (* star *) destruct H as [f0 H]. exists f0. intros f Hf. cbn [body]. apply H; exact Hf.
  - (* plus ok *) destruct H as [f1 H1]. destruct H0 as [f2 H2]. exists (Nat.max f1 f2). intros f Hf. cbn [body].
    rewrite (H1 f) by lia. cbn [bindr]. apply H2; lia.
  - destruct H as [f1 H1]. exists f1. intros f Hf. cbn [body]. rewrite (H1 f Hf). reflexivity.
  - destruct H as [f1 H1]. exists f1. intros f Hf. cbn [body]. rewrite (H1 f Hf). reflexivity.
  - (* opt *) destruct H as [f0 H]. exists f0. intros f Hf. cbn [body]. rewrite (H f Hf). reflexivity.
  - (* with frame *) destruct H as [f0 H]. exists f0. intros f Hf. unfold with_frame, in_frame. rewrite (H f Hf). reflexivity.
  - (* choice *) exists 0%nat. intros; reflexivity.
  - destruct H as [f1 H1]. exists f1. intros f Hf. cbn [choice]. rewrite (H1 f Hf). reflexivity.
  - destruct H as [f1 H1]. destruct H0 as [f2 H2]. exists (Nat.max f1 f2). intros f Hf. cbn [choice]. rewrite (H1 f) by lia. cbn [bindr]. apply H2. lia.
  - destruct H as [f1 H1]. exists f1. intros f Hf. cbn [choice]. rewrite (H1 f Hf). reflexivity.
  - (* seq *) exists 0%nat. intros; reflexivity.
  - destruct H as [f1 H1]. destruct H0 as [f2 H2]. exists (Nat.max f1 f2). intros f Hf. cbn [seq]. rewrite (H1 f) by lia. cbn [bindr]. apply H2. lia.
  - destruct H as [f1 H1]. exists f1. intros f Hf. cbn [seq]. rewrite (H1 f Hf). reflexivity.
  - destruct H as [f1 H1]. exists f1. intros f Hf. cbn [seq]. rewrite (H1 f Hf). reflexivity.
  - (* repetition *)
    destruct H as [f1 H1]. destruct H0 as [f2 H2]. exists (S (Nat.max f1 f2)). intros f k Hf Hk. destruct k as [|k]; [lia|]. cbn [star].
    rewrite (H1 f) by lia. cbn [bindr]. apply H2; lia.
  - destruct H as [f1 H1]. exists (S f1). intros f k Hf Hk. destruct k as [|k]; [lia|]. cbn [star]. rewrite (H1 f) by lia. reflexivity.
  - destruct H as [f1 H1]. exists (S f1). intros f k Hf Hk. destruct k as [|k]; [lia|]. cbn [star]. rewrite (H1 f) by lia. reflexivity.
Qed.

Theorem engine_complete e s x : sem e s x -> exists f0, forall f, (f0 <= f)%nat -> pe f e s = x.
Proof. apply engine_complete_all. Qed.

Corollary engine_iff e s x : x <> OutOfFuel -> (sem e s x <-> exists f0, forall f, (f0 <= f)%nat -> pe f e s = x).
Proof.
  intros Hx. split; [apply engine_complete|]. intros [f0 H]. apply (engine_sound f0); [apply H; apply le_n|exact Hx].
Qed.
End Sem.
Print Assumptions engine_sound.
Print Assumptions engine_iff.
