From Coq Require Import List ZArith String Ascii Bool NArith Lia.
Import ListNotations.
From Bexpr Require Import Base Ast Unicode Peg Typing Actions GoGrammar Sem Term Lex Lex2 Lex3 Calc Calc2 Skel StrLit.
Open Scope string_scope.

(* ---- raw (back-quoted) ---- *)
Definition not_bq (c : cell) : Prop := crune c <> 96%Z.

Lemma rsc_ok c rest : not_bq c -> pe_any (PRef "RawStringChar") (c :: rest) rest.
Proof.
  intros Hc. eapply pe_ok_any. eapply ref_any; [reflexivity|]. cbn [rexpr].
  apply seq_any. eapply seqs_any_cons.
  - eapply pe_ok_any. apply not_ok. exact (fails_f (head_not 96) _ (c :: rest) (fails_lit 96 []) Hc).
  - eapply seqs_any_cons; [eapply pe_ok_any; apply any_ok| apply seqs_any_nil].
Qed.
Lemma rsc_fails q rest : crune q = 96%Z -> fspecj (PRef "RawStringChar") (q :: rest).
Proof.
  intros Hq. eapply fref; [reflexivity|]. cbn [rexpr]. apply fseq. apply fseqs_here.
  eapply not_fails. eapply pe_ok_any. apply (lit_ok [96]%Z [q] rest). cbn. rewrite Hq. reflexivity.
Qed.

Theorem raw_literal_spec q cs q' k lit :
  crune q = 96%Z -> crune q' = 96%Z -> Forall not_bq cs ->
  unquote (cells_str (q :: app cs [q'])) = Some lit ->
  spec (PRef "StringLiteral") (q :: app cs (q' :: k)) (VStr lit) k.
Proof.
  intros Hq Hq' Hcs Hu.
  eapply ref_ok; [reflexivity|]. cbn [rexpr]. apply spec_j. apply choice_ok. apply specc_here.
  eapply action_any.
  - apply choice_any. apply pec_here. apply seq_any.
    eapply seqs_any_cons; [eapply pe_ok_any; apply (lit_ok [96]%Z [q] _); cbn; rewrite Hq; reflexivity|].
    eapply seqs_any_cons; [eapply pe_ok_any; apply (star_ok _ not_bq (q' :: k) rsc_ok (rsc_fails q' k Hq') cs Hcs)|].
    eapply seqs_any_cons; [eapply pe_ok_any; apply (lit_ok [96]%Z [q'] k); cbn; rewrite Hq'; reflexivity|].
    apply seqs_any_nil.
  - intros G. rewrite action_strlit.
    rewrite (text_between_prefix' (q :: app cs [q']) k); [rewrite Hu; reflexivity|].
    cbn [app]. rewrite <- app_assoc. reflexivity.
Qed.

