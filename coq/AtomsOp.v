From Coq Require Import List ZArith String Ascii Bool NArith Lia.
Import ListNotations.
From Bexpr Require Import Base Ast Unicode Peg Typing Actions GoGrammar Sem Term Lex Lex2 Lex3 Calc Calc2 Skel Top Atoms StrLit AtomsEq Spell Coll AtomsIn Values Sels.
Open Scope string_scope.

(* All six value operators of MatchSelectorOpValue, each with its own layout, in front of a quoted literal. *)

Inductive vop := VEq | VNeq | VContains | VNotContains | VMatches | VNotMatches.
Definition mop_of (o : vop) : matchop :=
  match o with VEq => OpEq | VNeq => OpNeq | VContains => OpIn | VNotContains => OpNotIn | VMatches => OpMatches | VNotMatches => OpNotMatches end.
Definition K_neq := lit_cells [33; 61]%Z.
Definition K_matches := lit_cells [109; 97; 116; 99; 104; 101; 115]%Z.

(* blanks: a, b are the blank runs around a symbol operator (may be empty); x::a etc. are mandatory runs around keywords *)
Record oplay := { o_x1 : cell; o_a1 : list cell; o_x2 : cell; o_a2 : list cell; o_x3 : cell; o_a3 : list cell;
                  o_h1 : is_ws o_x1; o_h1' : Forall is_ws o_a1; o_h2 : is_ws o_x2; o_h2' : Forall is_ws o_a2;
                  o_h3 : is_ws o_x3; o_h3' : Forall is_ws o_a3 }.

Definition op_text (o : vop) (l : oplay) (rest : list cell) : list cell :=
  match o with
  | VEq => app (o_a1 l) (app K_eq (app (o_a2 l) rest))
  | VNeq => app (o_a1 l) (app K_neq (app (o_a2 l) rest))
  | VContains => o_x1 l :: app (o_a1 l) (app K_contains (o_x2 l :: app (o_a2 l) rest))
  | VNotContains => o_x1 l :: app (o_a1 l) (app K_not (o_x2 l :: app (o_a2 l) (app K_contains (o_x3 l :: app (o_a3 l) rest))))
  | VMatches => o_x1 l :: app (o_a1 l) (app K_matches (o_x2 l :: app (o_a2 l) rest))
  | VNotMatches => o_x1 l :: app (o_a1 l) (app K_not (o_x2 l :: app (o_a2 l) (app K_matches (o_x3 l :: app (o_a3 l) rest))))
  end.

Lemma op_text_sel_stop o l rest : sel_stop (op_text o l rest).
Proof.
  destruct o; cbn [op_text]; try (apply sel_stop_ws; exact (o_h1 l)).
  - destruct (o_a1 l) as [|c r] eqn:E; [repeat split; cbn; discriminate|].
    pose proof (o_h1' l) as H. rewrite E in H. inversion H; subst. apply sel_stop_ws. assumption.
  - destruct (o_a1 l) as [|c r] eqn:E; [repeat split; cbn; discriminate|].
    pose proof (o_h1' l) as H. rewrite E in H. inversion H; subst. apply sel_stop_ws. assumption.
Qed.

Lemma sstop_ws c k : is_ws c -> sstop (c :: k).
Proof.
  intros H. destruct (ws_rune c H) as [E|[E|[E|E]]]; repeat split; cbn; rewrite E; try reflexivity; discriminate.
Qed.

Lemma op_text_sstop o l rest : sstop (op_text o l rest).
Proof.
  destruct o; cbn [op_text]; try (apply sstop_ws; exact (o_h1 l)).
  - destruct (o_a1 l) as [|c r] eqn:E; [repeat split; cbn; try reflexivity; discriminate|].
    pose proof (o_h1' l) as H. rewrite E in H. inversion H; subst. apply sstop_ws. assumption.
  - destruct (o_a1 l) as [|c r] eqn:E; [repeat split; cbn; try reflexivity; discriminate|].
    pose proof (o_h1' l) as H. rewrite E in H. inversion H; subst. apply sstop_ws. assumption.
Qed.

Section OpSpec.
Variables (l : oplay) (rest : list cell).
Hypothesis Hrest : ws_free rest.

(* failure of a symbol operator  _? sym _?  when the text after the blanks starts with another rune *)
Lemma sym_fails c s (w r : list cell) : Forall is_ws w -> ws_free r -> head_not c r ->
  fseqs [POpt (PRef "_"); PLit (c :: s) false; POpt (PRef "_")] (app w r).
Proof.
  intros Hw Hr Hh. eapply fseqs_later; [apply (ws_opt_ok w r Hw Hr)|].
  apply fseqs_here. exact (fails_f (head_not c) _ r (fails_lit c s) Hh).
Qed.

(* failure of a keyword operator  _ kw ...  when the text after the mandatory blanks starts with another rune *)
Lemma kw_fails c s es x w r : is_ws x -> Forall is_ws w -> ws_free r -> head_not c r ->
  fseqs (PRef "_" :: PLit (c :: s) false :: es) (x :: app w r).
Proof.
  intros Hx Hw Hr Hh. apply stop_kw_fseqs. right. exists x, w, r. auto.
Qed.

Ltac opref := eapply fref; [reflexivity|]; cbn [rexpr]; apply faction; apply fseq.
Ltac okref v := apply spec_j; eapply ref_ok; [reflexivity|]; cbn [rexpr]; eapply action_ok with (v' := v).

Lemma value_op_spec o :
  spec (PChoice [PRef "MatchEqual"; PRef "MatchNotEqual"; PRef "MatchContains"; PRef "MatchNotContains";
                 PRef "MatchMatches"; PRef "MatchNotMatches"]) (op_text o l rest) (VMOp (mop_of o)) rest.
Proof.
  pose proof (o_h1 l) as H1. pose proof (o_h1' l) as H1'. pose proof (o_h2 l) as H2. pose proof (o_h2' l) as H2'.
  pose proof (o_h3 l) as H3. pose proof (o_h3' l) as H3'.
  apply choice_ok. destruct o; cbn [op_text mop_of].
  - (* == *)
    apply specc_here. okref (VMOp OpEq).
    + apply seq_ok. eapply seqs_cons; [apply (ws_opt_ok (o_a1 l) _ H1'); reflexivity|].
      eapply seqs_cons; [apply (lit_ok [61; 61]%Z K_eq _ eq_refl)|].
      eapply seqs_cons; [apply (ws_opt_ok (o_a2 l) _ H2'); exact Hrest|]. apply seqs_nil.
    + intros G. reflexivity.
  - (* != *)
    apply specc_next; [opref; apply sym_fails; [exact H1'| reflexivity| cbn; discriminate]|].
    apply specc_here. okref (VMOp OpNeq).
    + apply seq_ok. eapply seqs_cons; [apply (ws_opt_ok (o_a1 l) _ H1'); reflexivity|].
      eapply seqs_cons; [apply (lit_ok [33; 61]%Z K_neq _ eq_refl)|].
      eapply seqs_cons; [apply (ws_opt_ok (o_a2 l) _ H2'); exact Hrest|]. apply seqs_nil.
    + intros G. reflexivity.
  - (* contains *)
    apply specc_next; [opref; apply (sym_fails 61 [61]%Z (o_x1 l :: o_a1 l)); [constructor; assumption| reflexivity| cbn; discriminate]|].
    apply specc_next; [opref; apply (sym_fails 33 [61]%Z (o_x1 l :: o_a1 l)); [constructor; assumption| reflexivity| cbn; discriminate]|].
    apply specc_here. okref (VMOp OpIn).
    + apply seq_ok. eapply seqs_cons; [apply (ws_plus_ok (o_x1 l) (o_a1 l) _ H1 H1'); reflexivity|].
      eapply seqs_cons; [apply (lit_ok [99; 111; 110; 116; 97; 105; 110; 115]%Z K_contains _ eq_refl)|].
      eapply seqs_cons; [apply (ws_plus_ok (o_x2 l) (o_a2 l) _ H2 H2'); exact Hrest|]. apply seqs_nil.
    + intros G. reflexivity.
  - (* not contains *)
    apply specc_next; [opref; apply (sym_fails 61 [61]%Z (o_x1 l :: o_a1 l)); [constructor; assumption| reflexivity| cbn; discriminate]|].
    apply specc_next; [opref; apply (sym_fails 33 [61]%Z (o_x1 l :: o_a1 l)); [constructor; assumption| reflexivity| cbn; discriminate]|].
    apply specc_next; [opref; apply kw_fails; [exact H1| exact H1'| reflexivity| cbn; discriminate]|].
    apply specc_here. okref (VMOp OpNotIn).
    + apply seq_ok. eapply seqs_cons; [apply (ws_plus_ok (o_x1 l) (o_a1 l) _ H1 H1'); reflexivity|].
      eapply seqs_cons; [apply (lit_ok [110; 111; 116]%Z K_not _ eq_refl)|].
      eapply seqs_cons; [apply (ws_plus_ok (o_x2 l) (o_a2 l) _ H2 H2'); reflexivity|].
      eapply seqs_cons; [apply (lit_ok [99; 111; 110; 116; 97; 105; 110; 115]%Z K_contains _ eq_refl)|].
      eapply seqs_cons; [apply (ws_plus_ok (o_x3 l) (o_a3 l) _ H3 H3'); exact Hrest|]. apply seqs_nil.
    + intros G. reflexivity.
  - (* matches *)
    apply specc_next; [opref; apply (sym_fails 61 [61]%Z (o_x1 l :: o_a1 l)); [constructor; assumption| reflexivity| cbn; discriminate]|].
    apply specc_next; [opref; apply (sym_fails 33 [61]%Z (o_x1 l :: o_a1 l)); [constructor; assumption| reflexivity| cbn; discriminate]|].
    apply specc_next; [opref; apply kw_fails; [exact H1| exact H1'| reflexivity| cbn; discriminate]|].
    apply specc_next; [opref; apply kw_fails; [exact H1| exact H1'| reflexivity| cbn; discriminate]|].
    apply specc_here. okref (VMOp OpMatches).
    + apply seq_ok. eapply seqs_cons; [apply (ws_plus_ok (o_x1 l) (o_a1 l) _ H1 H1'); reflexivity|].
      eapply seqs_cons; [apply (lit_ok [109; 97; 116; 99; 104; 101; 115]%Z K_matches _ eq_refl)|].
      eapply seqs_cons; [apply (ws_plus_ok (o_x2 l) (o_a2 l) _ H2 H2'); exact Hrest|]. apply seqs_nil.
    + intros G. reflexivity.
  - (* not matches *)
    apply specc_next; [opref; apply (sym_fails 61 [61]%Z (o_x1 l :: o_a1 l)); [constructor; assumption| reflexivity| cbn; discriminate]|].
    apply specc_next; [opref; apply (sym_fails 33 [61]%Z (o_x1 l :: o_a1 l)); [constructor; assumption| reflexivity| cbn; discriminate]|].
    apply specc_next; [opref; apply kw_fails; [exact H1| exact H1'| reflexivity| cbn; discriminate]|].
    apply specc_next.
    { opref. eapply fseqs_later; [apply (ws_plus_ok (o_x1 l) (o_a1 l) _ H1 H1'); reflexivity|].
      eapply fseqs_later; [apply (lit_ok [110; 111; 116]%Z K_not _ eq_refl)|].
      eapply fseqs_later; [apply (ws_plus_ok (o_x2 l) (o_a2 l) _ H2 H2'); reflexivity|].
      apply fseqs_here. refine (fails_f (head_not 99) _ _ (fails_lit 99 _) _). cbn. discriminate. }
    apply specc_next; [opref; apply kw_fails; [exact H1| exact H1'| reflexivity| cbn; discriminate]|].
    apply specc_here. okref (VMOp OpNotMatches).
    + apply seq_ok. eapply seqs_cons; [apply (ws_plus_ok (o_x1 l) (o_a1 l) _ H1 H1'); reflexivity|].
      eapply seqs_cons; [apply (lit_ok [110; 111; 116]%Z K_not _ eq_refl)|].
      eapply seqs_cons; [apply (ws_plus_ok (o_x2 l) (o_a2 l) _ H2 H2'); reflexivity|].
      eapply seqs_cons; [apply (lit_ok [109; 97; 116; 99; 104; 101; 115]%Z K_matches _ eq_refl)|].
      eapply seqs_cons; [apply (ws_plus_ok (o_x3 l) (o_a3 l) _ H3 H3'); exact Hrest|]. apply seqs_nil.
    + intros G. reflexivity.
Qed.
End OpSpec.
Print Assumptions value_op_spec.

Record opatom := { p_op : vop; p_lay : oplay; p_lit : vlit; p_sr : selr }.
Definition p_sel (a : opatom) : selector := s_val (p_sr a).
Definition p_exp (a : opatom) : expr := EMatch (p_sel a) (mop_of (p_op a)) (Some (v_lit (p_lit a))).
Definition p_txtK (a : opatom) (k : list cell) : list cell :=
  app (s_txt (p_sr a)) (op_text (p_op a) (p_lay a) (app (v_txt (p_lit a)) k)).
Definition p_txt (a : opatom) : list cell := p_txtK a [].

Lemma op_text_app o l r k : app (op_text o l r) k = op_text o l (app r k).
Proof. destruct o; cbn [op_text]; repeat (cbn [app]; rewrite <- ?app_assoc); reflexivity. Qed.

Lemma l_cells_app l k1 k2 : app (l_cells l k1) k2 = l_cells l (app k1 k2).
Proof. unfold l_cells. repeat (cbn [app]; rewrite <- ?app_assoc). reflexivity. Qed.

Lemma p_txt_app a k : app (p_txt a) k = p_txtK a k.
Proof.
  unfold p_txt, p_txtK. rewrite <- app_assoc, op_text_app, <- app_assoc. reflexivity.
Qed.

Lemma p_parse a k : astop k -> spec (PRef "MatchExpression") (app (p_txt a) k) (VExpr (p_exp a)) k.
Proof.
  intros Hk. rewrite p_txt_app. unfold p_txtK.
  eapply ref_ok; [reflexivity|]. cbn [rexpr]. apply spec_j. apply choice_ok. apply specc_here. apply spec_j.
  eapply ref_ok; [reflexivity|]. cbn [rexpr]. eapply action_ok.
  - apply seq_ok.
    eapply seqs_cons; [apply lab_ok; apply (s_spec (p_sr a) _ (op_text_sstop _ _ _))|].
    eapply seqs_cons; [apply lab_ok; apply (value_op_spec (p_lay a) (app (v_txt (p_lit a)) k)); apply (v_free (p_lit a))|].
    eapply seqs_cons; [apply lab_ok; apply (v_spec (p_lit a) k Hk)| apply seqs_nil].
  - intros G. reflexivity.
Qed.

Lemma p_not_paren a k : head_not 40 (app (p_txt a) k).
Proof. rewrite p_txt_app. apply s_head_not_paren. Qed.
Lemma p_head a k : ws_free (app (p_txt a) k).
Proof. rewrite p_txt_app. apply s_head_free. Qed.
Lemma p_not_not a k : fspecj not_alt1 (app (p_txt a) k).
Proof. rewrite p_txt_app. unfold p_txtK. apply s_head_not_not. apply op_text_sstop. Qed.

(* the closed theorem over: is [not] empty; the six value operators with a quoted literal; in / contains; quantifiers *)
Definition atom4 := (atom3 + opatom)%type.
Definition atxt4 (a : atom4) : list cell := match a with inl a => atxt3 a | inr a => p_txt a end.
Definition aexp4 (a : atom4) : expr := match a with inl a => aexp3 a | inr a => p_exp a end.

Theorem c16_full_parse4 input e t w0 w1 :
  rOr atom4 atxt4 aexp4 chdr h_txt h_op h_sel h_bind e t -> Forall is_ws w0 -> Forall is_ws w1 ->
  utf8_cells input = app w0 (app t w1) -> all_valid (utf8_cells input) ->
  exists f0, forall f, (f0 <= f)%nat -> exists n, parse go_grammar None action_sem pred_sem f input = Accepted (VExpr e) n.
Proof.
  apply (c16_parse_round_trip atom4 atxt4 aexp4).
  - intros [[[a|a]|a]|a] k; [apply atom_parse| apply e_parse| apply i_parse| apply p_parse].
  - intros [[[a|a]|a]|a] k; [apply atom_not_paren| apply e_not_paren| apply i_not_paren| apply p_not_paren].
  - intros [[[a|a]|a]|a] k; [apply atom_not_not| apply e_not_not| apply i_not_not| apply p_not_not].
  - intros [[[a|a]|a]|a] k; [apply atom_head| apply e_head| apply i_head| apply p_head].
  - apply hdr_parse_c.
  - apply hdr_and_fails_c.
  - apply hdr_head_c.
Qed.
Print Assumptions c16_full_parse4.
