From Coq Require Import List ZArith String Ascii Bool NArith.
Import ListNotations.
From Bexpr Require Import Base Ast Unicode Peg Actions GoGrammar.
Open Scope string_scope.

Definition bs (l : list Z) : string := str_of_list (map z2b l).

Fixpoint list_eqb {A} (eqb : A -> A -> bool) (a b : list A) : bool :=
  match a, b with [], [] => true | x :: a', y :: b' => eqb x y && list_eqb eqb a' b' | _, _ => false end.
Definition seltype_eqb a b := match a, b with SelBexpr, SelBexpr | SelJsonPtr, SelJsonPtr => true | _, _ => false end.
Definition sel_eqb (a b : selector) := seltype_eqb (stype a) (stype b) && list_eqb String.eqb (spath a) (spath b).
Definition mop_n (o : matchop) : nat := match o with OpEq => 0 | OpNeq => 1 | OpIn => 2 | OpNotIn => 3 | OpIsEmpty => 4 | OpIsNotEmpty => 5 | OpMatches => 6 | OpNotMatches => 7 end.
Definition bm_n (o : bindmode) : nat := match o with BDefault => 0 | BIndex => 1 | BValue => 2 | BIndexAndValue => 3 end.
Definition bind_eqb (a b : binding) := Nat.eqb (bm_n (bmode a)) (bm_n (bmode b)) && String.eqb (bdefault a) (bdefault b)
  && String.eqb (bindex a) (bindex b) && String.eqb (bvalue a) (bvalue b).
Definition optstr_eqb (a b : option string) := match a, b with None, None => true | Some x, Some y => String.eqb x y | _, _ => false end.
Fixpoint expr_eqb (a b : expr) : bool :=
  match a, b with
  | ENot x, ENot y => expr_eqb x y
  | EBin o l r, EBin o' l' r' => (match o, o' with BAnd, BAnd | BOr, BOr => true | _, _ => false end) && expr_eqb l l' && expr_eqb r r'
  | EMatch s o v, EMatch s' o' v' => sel_eqb s s' && Nat.eqb (mop_n o) (mop_n o') && optstr_eqb v v'
  | EColl o s b i, EColl o' s' b' i' => (match o, o' with CAll, CAll | CAny, CAny => true | _, _ => false end) && sel_eqb s s' && bind_eqb b b' && expr_eqb i i'
  | _, _ => false
  end.

Definition big_fuel : nat := 200000.
Definition run (s : string) := parse go_grammar None action_sem pred_sem big_fuel s.

(* 0 = agree; otherwise a code saying what differs *)
Definition check (c : list Z * option expr * N) : nat :=
  let '(b, exp, n) := c in
  match run (bs b), exp with
  | Accepted (VExpr e) n', Some e' => if expr_eqb e e' then (if N.eqb n n' then 0 else 1) else 2
  | Accepted _ _, _ => 3
  | Rejected _ n' false, None => if N.eqb n n' then 0 else 4
  | Rejected _ _ _, _ => 5
  | NoFuel, _ => 6
  end.

Fixpoint mismatches (i : nat) (l : list (list Z * option expr * N)) : list (nat * nat) :=
  match l with [] => [] | c :: l' => let k := check c in (if Nat.eqb k 0 then [] else [(i, k)]) ++ mismatches (S i) l' end.
