(* Number literals in full - an optional minus sign, then zero or a non-zero digit followed by digits, then an optional
   fraction (a dot and at least one digit) - as values, for every continuation an atom admits.
   The parsed value is the literal's own text (the action returns the matched text), so a number written bare
   denotes the same literal as the same text written in quotes. *)
From Coq Require Import List ZArith String Ascii Bool NArith Lia.
Import ListNotations.
From Bexpr Require Import Base Ast Unicode Peg Typing Actions GoGrammar Sem Term Lex Lex2 Lex3 Calc Calc2 Skel Top Atoms StrLit AtomsEq Spell C07 Ptr Coll AtomsIn Values Sels Num.
Open Scope string_scope.

(* optional element, present *)
Lemma opt_some b i k : pe_any b i k -> pe_any (POpt b) i k.
Proof.
  intros H Hv. destruct (H Hv) as [Hk Hs]. split; [exact Hk|]. intros s E.
  destruct (Hs (set_fr (tk s) []) E) as [v [s1 [H1 [Hi Hn]]]].
  exists v, (set_fr s1 (fr s)). split; [exact (L_opt b s true v s1 H1)|]. cbn. auto.
Qed.

(* the repetition loop, cell by cell, from any accumulator *)
Lemma semr_loop e (P : cell -> Prop) k :
  (forall c rest, P c -> pe_any e (c :: rest) rest) -> fspecj e k ->
  forall cs, Forall P cs -> all_valid (app cs k) -> forall acc s, inp s = app cs k ->
  exists v s', SEMR e acc s (Done true v s') /\ keeps s s' k.
Proof.
  intros He Hf. induction cs as [|c cs IH]; intros Hcs Hv acc s E.
  - cbn [app] in *. destruct (Hf Hv (set_fr s []) E) as [v [s1 [H1 [Hi Hn]]]].
    exists (VList (rev acc)), (set_fr s1 (fr s)). split; [eapply sr_stop; exact (L_w e s false v s1 H1)|].
    unfold keeps. cbn. auto.
  - cbn [app] in *. inversion Hcs as [|? ? Hc Hcs']; subst.
    destruct (He c (app cs k) Hc Hv) as [Hv' Hs].
    destruct (Hs (set_fr s []) E) as [v [s1 [H1 [Hi Hn]]]].
    assert (E1 : inp (set_fr s1 (fr s)) = app cs k) by exact Hi.
    destruct (IH Hcs' Hv' (v :: acc) _ E1) as [v2 [s2 [H2 [Hi2 [Hn2 Hf2]]]]].
    exists v2, s2. split; [eapply sr_more; [exact (L_w e s true v s1 H1)| exact H2]|].
    unfold keeps. rewrite Hi2, Hn2, Hf2. cbn. auto.
Qed.

(* one or more *)
Lemma plus_any e (P : cell -> Prop) k c cs :
  (forall c rest, P c -> pe_any e (c :: rest) rest) -> fspecj e k -> P c -> Forall P cs ->
  pe_any (PPlus e) (c :: app cs k) k.
Proof.
  intros He Hf Hc Hcs Hv.
  assert (Hv1 : all_valid (app cs k)) by (inversion Hv; assumption).
  split; [exact (proj2 (proj1 (Forall_app _ _ _) Hv1))|]. intros s E.
  destruct (He c (app cs k) Hc Hv) as [_ Hs].
  assert (E0 : inp (set_fr (tk s) []) = c :: app cs k) by exact E.
  destruct (Hs (set_fr (tk s) []) E0) as [v [s1 [H1 [Hi Hn]]]].
  assert (E1 : inp (set_fr s1 (fr (tk s))) = app cs k) by exact Hi.
  destruct (semr_loop e P k He Hf cs Hcs Hv1 [v] _ E1) as [v2 [s2 [H2 [Hi2 [Hn2 Hf2]]]]].
  exists v2, s2. split.
  - apply sem_tick. eapply sb_plus_ok; [exact (L_w e (tk s) true v s1 H1)| exact H2].
  - rewrite Hi2, Hn2. cbn. rewrite Hn. cbn. auto.
Qed.

Definition is_minus (c : cell) : Prop := crune c = 45%Z.
Definition is_zero (c : cell) : Prop := crune c = 48%Z.
Definition is_dot (c : cell) : Prop := crune c = 46%Z.

(* the three parts of a number literal *)
Inductive sign_part : list cell -> Prop :=
| sp_none : sign_part []
| sp_minus m : is_minus m -> sign_part [m].
Inductive int_part : list cell -> Prop :=
| ip_zero z : is_zero z -> int_part [z]
| ip_pos d ds : class_match cls19 (crune d) = true -> Forall is_digit ds -> int_part (d :: ds).
Inductive frac_part : list cell -> Prop :=
| fp_none : frac_part []
| fp_some dot f fs : is_dot dot -> is_digit f -> Forall is_digit fs -> frac_part (dot :: f :: fs).

Lemma digit_range c : is_digit c -> (48 <= crune c <= 57)%Z.
Proof.
  unfold is_digit, class_match. cbn. rewrite !orb_false_r. intros H. apply andb_true_iff in H. destruct H as [H1 H2].
  apply Z.leb_le in H1. apply Z.leb_le in H2. lia.
Qed.

Lemma int_part_head ip r : int_part ip -> exists c rest, app ip r = c :: rest /\ (48 <= crune c <= 57)%Z.
Proof.
  intros [z Hz|d ds Hd _]; cbn [app].
  - exists z, r. split; [reflexivity|]. unfold is_zero in Hz. lia.
  - exists d, (app ds r). split; [reflexivity|]. pose proof (d19_range _ Hd). lia.
Qed.

Lemma not_digit_miss r : (match r with [] => True | c :: _ => ~ (48 <= crune c <= 57)%Z end) -> class_miss cls_digit r.
Proof.
  destruct r as [|c r]; [intros _; exact I|]. intros H. unfold class_miss, class_match. cbn. rewrite !orb_false_r.
  apply andb_false_iff. destruct (Z.leb_spec 48 (crune c)); [right; apply Z.leb_gt; lia| left; reflexivity].
Qed.

Lemma digit_ok c rest : is_digit c -> pe_any (PClass cls_digit) (c :: rest) rest.
Proof. intros Hc. eapply pe_ok_any. apply (class_ok cls_digit c rest Hc). Qed.

Section NumberLiteral.
Variables (sg ip fp k : list cell).
Hypothesis Hsg : sign_part sg.
Hypothesis Hip : int_part ip.
Hypothesis Hfp : frac_part fp.
Hypothesis Hk : astop k.
Let T := app sg (app ip fp).
Let i := app T k.

(* what follows the integer part is not a digit *)
Lemma after_int_not_digit : class_miss cls_digit (app fp k).
Proof.
  destruct Hfp as [|dot f fs Hd _ _]; cbn [app].
  - exact (proj1 (astop_digit_stop k Hk)).
  - apply not_digit_miss. unfold is_dot in Hd. lia.
Qed.

Lemma int_spec : pe_any (PChoice [PLit [48]%Z false; PSeq [PClass cls19; PStar (PClass cls_digit)]]) (app ip (app fp k)) (app fp k).
Proof.
  pose proof after_int_not_digit as Hstop.
  destruct Hip as [z Hz|d ds Hd Hds]; apply choice_any.
  - apply pec_here. eapply pe_ok_any. apply (lit_ok [48]%Z [z] (app fp k)). cbn. rewrite Hz. reflexivity.
  - pose proof (d19_range _ Hd) as Hr. apply pec_next.
    + refine (fails_f (head_not 48) _ _ (fails_lit 48 []) _). cbn. lia.
    + apply pec_here. apply seq_any. cbn [app].
      eapply seqs_any_cons; [eapply pe_ok_any; apply (class_ok cls19 d _ Hd)|].
      eapply seqs_any_cons; [|apply seqs_any_nil].
      eapply pe_ok_any. apply (star_ok (PClass cls_digit) is_digit (app fp k)); [|apply fclass; exact Hstop| exact Hds].
      intros c rest Hc. exact (digit_ok c rest Hc).
Qed.

Lemma frac_spec : pe_any (POpt (PSeq [PLit [46]%Z false; PPlus (PClass cls_digit)])) (app fp k) k.
Proof.
  destruct (astop_digit_stop k Hk) as [Hm H46].
  destruct Hfp as [|dot f fs Hd Hf Hfs]; cbn [app].
  - eapply pe_ok_any. apply opt_none. apply fseq. apply fseqs_here. exact (fails_f (head_not 46) _ k (fails_lit 46 []) H46).
  - apply opt_some. apply seq_any.
    eapply seqs_any_cons; [eapply pe_ok_any; apply (lit_ok [46]%Z [dot] _); cbn; rewrite Hd; reflexivity|].
    eapply seqs_any_cons; [|apply seqs_any_nil].
    apply (plus_any (PClass cls_digit) is_digit k f fs); [|apply fclass; exact Hm| exact Hf| exact Hfs].
    intros c rest Hc. exact (digit_ok c rest Hc).
Qed.

Lemma iof_spec_full : pe_any (PRef "IntegerOrFloat") (app ip (app fp k)) k.
Proof.
  eapply pe_ok_any. eapply ref_any; [reflexivity|]. cbn [rexpr]. apply seq_any.
  eapply seqs_any_cons; [exact int_spec|].
  eapply seqs_any_cons; [exact frac_spec| apply seqs_any_nil].
Qed.

Lemma sign_spec : pe_any (POpt (PLit [45]%Z false)) i (app ip (app fp k)).
Proof.
  unfold i, T. destruct Hsg as [|m Hm]; cbn [app]; rewrite <- ?app_assoc.
  - destruct (int_part_head ip (app fp k) Hip) as [c [rest [E Hc]]]. rewrite E.
    eapply pe_ok_any. apply opt_none. refine (fails_f (head_not 45) _ _ (fails_lit 45 []) _). cbn. lia.
  - apply opt_some. eapply pe_ok_any. apply (lit_ok [45]%Z [m] _). cbn. rewrite Hm. reflexivity.
Qed.

Lemma number_spec_full : all_valid k -> spec (PRef "NumberLiteral") i (VStr (cells_str T)) k.
Proof.
  intros Hvk.
  eapply ref_ok; [reflexivity|]. cbn [rexpr]. apply spec_j. apply choice_ok. apply specc_here.
  eapply action_any.
  - apply seq_any.
    eapply seqs_any_cons; [exact sign_spec|].
    eapply seqs_any_cons; [exact iof_spec_full|].
    eapply seqs_any_cons; [eapply pe_ok_any; eapply and_ok; eapply pe_ok_any; apply (after_numbers_ok k Hk Hvk)| apply seqs_any_nil].
  - intros G. unfold i. rewrite (text_between_prefix' T k); [reflexivity| reflexivity].
Qed.

(* the first cell of a number is a minus sign or a digit: neither a letter nor a double quote *)
Lemma num_head : exists c rest, i = c :: rest /\ (45 <= crune c <= 57)%Z.
Proof.
  unfold i, T. destruct Hsg as [|m Hm]; cbn [app]; rewrite <- ?app_assoc.
  - destruct (int_part_head ip (app fp k) Hip) as [c [rest [E Hc]]]. exists c, rest. split; [exact E| lia].
  - exists m, (app ip (app fp k)). split; [reflexivity|]. unfold is_minus in Hm. lia.
Qed.

Lemma low_not_letter z : (45 <= z <= 57)%Z -> class_match cls_id_head z = false.
Proof.
  intros H. unfold class_match. cbn. rewrite !orb_false_r.
  apply orb_false_iff. split; apply andb_false_iff; left; apply Z.leb_gt; lia.
Qed.

Lemma selector_fails_on_number : fspecj (PRef "Selector") i.
Proof.
  destruct num_head as [c [rest [E Hc]]]. rewrite E.
  eapply fref; [reflexivity|]. cbn [rexpr]. apply fchoice. constructor; [|constructor; [|constructor]].
  - apply faction. apply fseq. apply fseqs_here. apply flabeled.
    eapply fref; [reflexivity|]. cbn [rexpr]. apply faction. apply fseq. apply fseqs_here.
    apply fclass. cbn. exact (low_not_letter _ Hc).
  - apply faction. apply fseq. apply fseqs_here.
    refine (fails_f (head_not 34) _ (c :: rest) (fails_lit 34 []) _). cbn. lia.
Qed.

Theorem value_number_spec : all_valid k -> spec (PRef "Value") i (VMV (cells_str T)) k.
Proof.
  intros Hvk. eapply ref_ok; [reflexivity|]. cbn [rexpr]. apply spec_j. apply choice_ok.
  apply specc_next; [apply faction; apply flabeled; apply selector_fails_on_number|].
  apply specc_here. eapply action_ok; [apply lab_ok; apply (number_spec_full Hvk)|]. intros G. reflexivity.
Qed.
End NumberLiteral.
Print Assumptions value_number_spec.

Lemma all_valid_suffix a k : all_valid (app a k) -> all_valid k.
Proof. intros H. exact (proj2 (proj1 (Forall_app _ _ _) H)). Qed.

(* a number literal as one of the literal styles of a value *)
Definition of_number (sg ip fp : list cell) (Hsg : sign_part sg) (Hip : int_part ip) (Hfp : frac_part fp) : vlit.
Proof.
  refine {| v_txt := app sg (app ip fp); v_lit := cells_str (app sg (app ip fp)) |}.
  - intros k Hk Hv. exact (value_number_spec sg ip fp k Hsg Hip Hfp Hk (all_valid_suffix _ k Hv) Hv).
  - intros k. destruct (num_head sg ip fp k Hsg Hip) as [c [rest [E Hc]]]. rewrite E. cbn.
    unfold class_match. cbn. rewrite !orb_false_r.
    repeat (apply orb_false_iff; split); apply Z.eqb_neq; lia.
Defined.

(* instances: -2.5, 0, 0.125, 10 are values in every admissible continuation *)
Example minus_two_point_five : forall k, astop k -> all_valid k ->
  spec (PRef "Value") (app (utf8_cells "-2.5") k) (VMV "-2.5") k.
Proof.
  intros k Hk Hvk.
  assert (Hs : sign_part (utf8_cells "-")) by (vm_compute; apply sp_minus; reflexivity).
  assert (Hi : int_part (utf8_cells "2")) by (vm_compute; apply ip_pos; [reflexivity| constructor]).
  assert (Hf : frac_part (utf8_cells ".5")) by (vm_compute; apply fp_some; [reflexivity| reflexivity| constructor]).
  exact (value_number_spec _ _ _ k Hs Hi Hf Hk Hvk).
Qed.
Example zero_point_125_parses : exists n e,
  parse go_grammar None action_sem pred_sem 5000 "x == 0.125 and y == -0" = Accepted (VExpr e) n.
Proof. eexists. eexists. vm_compute. reflexivity. Qed.
