(* C01, JSON documents: the data encoding/json produces when decoding into interface{} (nil, bool, float64 or
   json.Number, string, []interface{}, map[string]interface{}) - the most common kind of datum.  `json` is the
   document, `doc` its Go representation in the typed value universe, `jwalk` the documented meaning of a selector
   ("walk the document by key and index"), and `get_json` says the evaluator's lookup (the model of
   pointerstructure.Get as evaluate.go configures it) computes exactly that walk, for every document and every path. *)
From Coq Require Import List ZArith String Bool NArith Lia.
Import ListNotations.
From Bexpr Require Import Base Strconv Ast Univ Eval.
Open Scope string_scope.

Inductive json :=
| JNull | JBool (b : bool) | JNum (bits : Z) | JNumber (text : string) | JStr (s : string)
| JArr (l : list json) | JObj (kvs : list (string * json)).

(* the value as it sits in an interface{}-typed slot *)
Fixpoint embed (j : json) : gval :=
  match j with
  | JNull => VNilIface
  | JBool b => VIface TBool (VBool b)
  | JNum x => VIface TF64 (VF64 x)
  | JNumber s => VIface (TNamed "json.Number" TString) (VStr s)
  | JStr s => VIface TString (VStr s)
  | JArr l => VIface (TSlice TIface) (VSlice false (map embed l))
  | JObj kvs => VIface (TMap TString TIface) (VMap false (map (fun kv => (VStr (fst kv), embed (snd kv))) kvs))
  end.
Definition slot (j : json) : rv := Some (TIface, embed j).
Definition doc (j : json) : iface := r_interface (slot j).       (* what is passed to Evaluate *)

(* the documented meaning of a selector *)
Inductive jres := JFound (j : json) | JNotFound | JOutOfRange | JBadIndex | JInvalidKind.
Fixpoint jfind (k : string) (kvs : list (string * json)) : option json :=
  match kvs with [] => None | (k', v) :: r => if String.eqb k' k then Some v else jfind k r end.
Definition jstep (part : string) (j : json) : jres :=
  match j with
  | JObj kvs => match jfind part kvs with Some v => JFound v | None => JNotFound end
  | JArr l =>
      match parse_int (weak_str part) 0 64 with
      | POk i => if (i <? 0)%Z || (Z.of_nat (List.length l) <=? i)%Z then JOutOfRange
                 else match nth_error l (Z.to_nat i) with Some x => JFound x | None => JOutOfRange end
      | PErr _ => JBadIndex end
  | _ => JInvalidKind
  end.
Fixpoint jwalk (path : list string) (j : json) : jres :=
  match path with
  | [] => JFound j
  | p :: ps => match jstep p j with JFound x => jwalk ps x | r => r end
  end.

Definition of_jres (r : jres) : result rv :=
  match r with
  | JFound x => Ok (slot x) | JNotFound => Err ENotFound | JOutOfRange => Err EOutOfRange
  | JBadIndex => Err EConvert | JInvalidKind => Err EInvalidKind end.

Lemma map_find_embed part kvs :
  map_find TString (VStr part) (map (fun kv => (VStr (fst kv), embed (snd kv))) kvs) = option_map embed (jfind part kvs).
Proof.
  induction kvs as [|[k v] r IH]; [reflexivity|]. cbn [map map_find jfind fst snd].
  unfold map_key_eqb, key_eqb. destruct (String.eqb k part); [reflexivity|exact IH].
Qed.

Lemma nth_error_map_embed l n : nth_error (map embed l) n = option_map embed (nth_error l n).
Proof. apply nth_error_map. Qed.

Lemma get_step_json cfg part j : get_step cfg part (slot j) = of_jres (jstep part j).
Proof.
  unfold get_step, slot. destruct j as [|b|x|s|s|l|kvs]; try reflexivity.
  - (* array *)
    cbn [embed strip_iface kind_of kind_of_type under r_elem strip_ptrs jstep].
    rewrite map_length. destruct (parse_int (weak_str part) 0 64) as [i|e]; [|reflexivity].
    destruct ((i <? 0)%Z || (Z.of_nat (List.length l) <=? i)%Z); [reflexivity|].
    rewrite nth_error_map_embed. destruct (nth_error l (Z.to_nat i)); reflexivity.
  - (* object *)
    cbn [embed strip_iface kind_of kind_of_type under r_elem strip_ptrs jstep key_type coerce_key].
    rewrite map_find_embed. destruct (jfind part kvs); reflexivity.
Qed.

Lemma get_loop_json cfg path : hook cfg = None -> forall j, get_loop cfg path (slot j) = of_jres (jwalk path j).
Proof.
  intros Hh. induction path as [|p ps IH]; intros j; [reflexivity|].
  cbn [get_loop jwalk]. rewrite get_step_json. destruct (jstep p j); cbn [of_jres]; try reflexivity.
  rewrite Hh. apply IH.
Qed.

(* selectors walk the document by key and index: for every JSON document and every path *)
Theorem get_json cfg path j : hook cfg = None ->
  get cfg path (doc j) =
  match jwalk path j with
  | JFound x => Ok (doc x) | JNotFound => Err ENotFound | JOutOfRange => Err EOutOfRange
  | JBadIndex => Err EConvert | JInvalidKind => Err EInvalidKind end.
Proof.
  intros Hh. unfold get. destruct path as [|p ps]; [reflexivity|].
  assert (E : get_loop cfg (p :: ps) (doc j) = get_loop cfg (p :: ps) (slot j)).
  { cbn [get_loop]. f_equal. unfold get_step.
    assert (S : strip_iface (doc j) = strip_iface (slot j)).
    { unfold doc, slot. destruct j; reflexivity. }
    rewrite S. reflexivity. }
  rewrite E, (get_loop_json cfg (p :: ps) Hh j). destruct (jwalk (p :: ps) j); reflexivity.
Qed.

Lemma jwalk_app p q j : jwalk (p ++ q) j = match jwalk p j with JFound x => jwalk q x | r => r end.
Proof. revert j. induction p as [|a p IH]; intros j; [reflexivity|]. cbn [app jwalk]. destruct (jstep a j); try reflexivity. apply IH. Qed.

(* a non-vacuity check: {"a": {"b": [10, "x"]}}, path a.b.1 *)
Example walk_example :
  jwalk ["a"; "b"; "1"] (JObj [("a", JObj [("b", JArr [JNum 0; JStr "x"])])]) = JFound (JStr "x").
Proof. vm_compute. reflexivity. Qed.
Print Assumptions get_json.
