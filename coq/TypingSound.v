From Coq Require Import List ZArith String Bool NArith Lia.
Import ListNotations.
From Bexpr Require Import Base Ast Unicode Peg Typing.
Open Scope string_scope.

Definition frame_typed (G : tenv) (f : frame) : Prop := forall l t, tlookup G l = Some t -> has_ty t (lookup f l).

Lemma frame_typed_nil f : frame_typed [] f.
Proof. intros l t H. discriminate. Qed.
Lemma frame_typed_cons G f l t v : frame_typed G f -> has_ty t v -> frame_typed ((l, t) :: G) ((l, v) :: f).
Proof. intros HG Hv l' t' H. cbn in *. destruct (String.eqb l l'); [injection H as <-; exact Hv | apply HG; exact H]. Qed.

(* error counter of a result, and its monotonicity *)
Definition rerr (r : res) : option nat :=
  match r with Done _ _ s => Some (nerr s) | Abort _ s => Some (nerr s) | OutOfFuel => None end.
Definition emono (r : res) (n : nat) : Prop := match rerr r with Some m => (n <= m)%nat | None => True end.
Lemma emono_trans r a b : (a <= b)%nat -> emono r b -> emono r a.
Proof. unfold emono. destruct (rerr r); [lia|auto]. Qed.
Lemma bindr_emono r k n : emono r n -> (forall ok v s, (n <= nerr s)%nat -> emono (k ok v s) (nerr s)) -> emono (bindr r k) n.
Proof. destruct r as [ok v s|a s|]; cbn; auto. intros H Hk. eapply emono_trans; [|apply Hk]; unfold emono in H; cbn in H; lia. Qed.

Ltac efin := unfold emono; cbn; lia.

Lemma nerr_peek_err i s : (nerr s <= nerr (peek_err i s))%nat.
Proof. destruct i as [|c i]; cbn; [lia|]. destruct (cvalid c); cbn; lia. Qed.
Lemma nerr_advance s : (nerr s <= nerr (advance s))%nat.
Proof. unfold advance. destruct (inp s); [lia|]. eapply Nat.le_trans; [|apply nerr_peek_err]. cbn. lia. Qed.
Lemma nerr_lit_go l start : forall s, (nerr s <= nerr (snd (lit_go l start s)))%nat.
Proof. induction l as [|c l IH]; intros s; cbn [lit_go]; [cbn; lia|].
  destruct (inp s) as [|x i] eqn:E; [cbn; lia|]. destruct (Z.eqb _ _); [|cbn; lia].
  eapply Nat.le_trans; [apply nerr_advance|apply IH]. Qed.
Lemma fr_peek_err i s : fr (peek_err i s) = fr s.
Proof. destruct i as [|c i]; cbn; [reflexivity|]. destruct (cvalid c); reflexivity. Qed.
Lemma fr_advance s : fr (advance s) = fr s.
Proof. unfold advance. destruct (inp s); [reflexivity|]. rewrite fr_peek_err. reflexivity. Qed.
Lemma fr_lit_go l start : forall s, fr (snd (lit_go l start s)) = fr s.
Proof. induction l as [|c l IH]; intros s; cbn [lit_go]; [reflexivity|].
  destruct (inp s) as [|x i] eqn:E; [reflexivity|]. destruct (Z.eqb _ _); [|reflexivity]. rewrite IH. apply fr_advance. Qed.

Lemma find_rule_in g n r : find_rule g n = Some r -> In r g /\ rname r = n.
Proof. induction g as [|r' g' IH]; cbn; [discriminate|]. destruct (String.eqb (rname r') n) eqn:E.
  - intros [= <-]. split; [left; reflexivity|]. apply String.eqb_eq. exact E.
  - intros H. destruct (IH H). split; [right|]; assumption. Qed.

Section S.
Variable g : list rule.
Variable mx : option N.
Variable action_sem : string -> frame -> string -> ares.
Variable pred_sem : string -> frame -> bool * bool.
Variable rule_ty : string -> vty.
Variable act_params : string -> list (string * vty).
Variable act_ret : string -> vty.

Hypothesis Hg : grammar_typed g rule_ty act_params act_ret = true.
Hypothesis Hact : forall id f text,
  (forall l t, In (l, t) (act_params id) -> has_ty t (lookup f l)) ->
  match action_sem id f text with AVal v | AErr v => has_ty (act_ret id) v | APanic => False end.
Hypothesis Hpred : forall id f, fst (pred_sem id f) = false.

Notation tcheck := (tcheck rule_ty act_params act_ret).

Lemma params_ok_sound G ps f : params_ok G ps = true -> frame_typed G f ->
  forall l t, In (l, t) ps -> has_ty t (lookup f l).
Proof.
  unfold params_ok. rewrite forallb_forall. intros H HG l t Hin. specialize (H _ Hin). cbn in H.
  destruct (tlookup G l) as [t'|] eqn:E; [|discriminate]. eapply has_ty_sub; [exact H|]. apply HG. exact E.
Qed.

(* ---- error monotonicity of the engine ---- *)
Section EM.
Variable r : pexpr -> st -> res.
Hypothesis Hr : forall e s, emono (r e s) (nerr s).
Lemma with_frame_emono e s : emono (with_frame (r e) s) (nerr s).
Proof. unfold with_frame. apply bindr_emono; [apply (Hr e (set_fr s []))|]. intros; efin. Qed.
Lemma choice_emono alts : forall s, emono (choice r alts s) (nerr s).
Proof. induction alts as [|a alts IH]; intros s; cbn [choice]; [efin|].
  apply bindr_emono; [apply with_frame_emono|]. intros [|] v s' _; [efin|apply IH]. Qed.
Lemma seq_emono es start : forall acc s, emono (seq r es start acc s) (nerr s).
Proof. induction es as [|a es IH]; intros acc s; cbn [seq]; [efin|].
  apply bindr_emono; [apply Hr|]. intros [|] v s' _; [apply IH|efin]. Qed.
Lemma star_emono k b : forall acc s, emono (star r k b acc s) (nerr s).
Proof. induction k as [|k IH]; intros acc s; cbn [star]; [exact I|].
  apply bindr_emono; [apply with_frame_emono|]. intros [|] v s' _; [apply IH|efin]. Qed.
Lemma body_emono fuel e s : emono (body g action_sem pred_sem r fuel e s) (nerr s).
Proof.
  destruct e; cbn [body]; try apply choice_emono; try apply seq_emono; try apply star_emono;
    try (apply bindr_emono; [first [apply with_frame_emono | apply Hr]|]; intros ok v s' _).
  - destruct ok; [|efin]. destruct (action_sem _ _ _); efin.
  - destruct (pred_sem _ _) as [b e]. destruct e; efin.
  - destruct (pred_sem _ _) as [b e]. destruct e; efin.
  - efin.
  - efin.
  - destruct (inp s); [efin|]. unfold emono; cbn. apply nerr_advance.
  - destruct (inp s); [efin|]. destruct (class_match _ _); [|efin]. unfold emono; cbn. apply nerr_advance.
  - pose proof (nerr_lit_go s0 (inp s) s) as Hl. destruct (lit_go s0 (inp s) s) as [ok s']. cbn in Hl. destruct ok; unfold emono; cbn; lia.
  - destruct ok; efin.
  - destruct (find_rule g name); [apply with_frame_emono|efin].
  - destruct ok; [apply star_emono|efin].
  - efin.
Qed.
Lemma step_emono fuel e s : emono (step g mx action_sem pred_sem r fuel e s) (nerr s).
Proof. unfold step, tick. destruct mx as [m|]; cbn.
  - destruct (N.ltb _ _); [efin|]. eapply emono_trans; [|apply body_emono]. cbn; lia.
  - eapply emono_trans; [|apply body_emono]. cbn; lia.
Qed.
End EM.
Lemma pe_emono fuel : forall e s, emono (pe g mx action_sem pred_sem fuel e s) (nerr s).
Proof. induction fuel as [|f IH]; intros e s; cbn [pe]; [exact I|]. apply step_emono. exact IH. Qed.

(* ---- typing ---- *)
(* In this grammar every action returns a value of its declared type even when it reports an error
   (the only such action, StringLiteral2, returns the empty string), so typing does not depend on the error count. *)
Definition post (T : vty) (G' : tenv) (r : res) : Prop :=
  match r with
  | Done true v s' => has_ty T v /\ frame_typed G' (fr s')
  | _ => True
  end.

Definition good (r : pexpr -> st -> res) : Prop :=
  forall e s G T G', tcheck G e = Some (T, G') -> frame_typed G (fr s) -> post T G' (r e s).

Section TS.
Variable r : pexpr -> st -> res.
Hypothesis Hgood : good r.

Lemma with_frame_post e s T G0 :
  tcheck [] e = Some (T, G0) ->
  match with_frame (r e) s with
  | Done true v s' => fr s' = fr s /\ has_ty T v
  | Done false _ s' => fr s' = fr s
  | _ => True end.
Proof.
  intros Ht. unfold with_frame.
  pose proof (Hgood e (set_fr s []) [] T G0 Ht (frame_typed_nil _)) as Hp.
  destruct (r e (set_fr s [])) as [[|] v s'|a s'|]; cbn; auto.
  split; [reflexivity|]. apply Hp.
Qed.

Lemma tchoice_sub alts : forall acc T G G', tchoice_go tcheck alts acc G = Some (T, G') -> G' = G /\ sub acc T = true.
Proof.
  induction alts as [|a alts IH]; intros acc T G G'; cbn [tchoice_go].
  - intros [= <- <-]. split; [reflexivity|apply sub_refl].
  - destruct (tcheck [] a) as [[t G0]|]; [|discriminate]. intros H. destruct (IH _ _ _ _ H) as [-> Hs].
    split; [reflexivity|]. eapply sub_trans; [apply sub_join_l|exact Hs].
Qed.

Lemma choice_post alts : forall acc s T G G', tchoice_go tcheck alts acc G = Some (T, G') ->
  match choice r alts s with
  | Done true v s' => fr s' = fr s /\ has_ty T v
  | Done false _ s' => fr s' = fr s
  | _ => True end.
Proof.
  induction alts as [|a alts IH]; intros acc s T G G' Ht; cbn [choice tchoice_go] in *; [reflexivity|].
  destruct (tcheck [] a) as [[t G0]|] eqn:Ea; [|discriminate].
  pose proof (with_frame_post a s t G0 Ea) as Hw.
  destruct (with_frame (r a) s) as [[|] v s1|x s1|]; cbn [bindr]; auto.
  - destruct Hw as [Hf Hv]. split; [exact Hf|].
    destruct (tchoice_sub _ _ _ _ _ Ht) as [_ Hs].
    eapply has_ty_sub; [|exact Hv]. eapply sub_trans; [apply sub_join_r|exact Hs].
  - specialize (IH _ s1 _ _ _ Ht). rewrite Hw in IH. exact IH.
Qed.

Lemma seq_post es start : forall G s acc T G', tseq_go tcheck es G false = Some (T, G') -> frame_typed G (fr s) ->
  post T G' (seq r es start acc s).
Proof.
  induction es as [|a es IH]; intros G s acc T G' Ht HG; cbn [seq tseq_go] in *.
  - injection Ht as <- <-. cbn. split; [exact I|exact HG].
  - destruct (tcheck G a) as [[t G1]|] eqn:Ea; [|discriminate].
    pose proof (Hgood a s G t G1 Ea HG) as Hp.
    destruct (r a s) as [[|] v s1|x s1|] eqn:Er; cbn [bindr]; try exact I.
    cbn in Hp. destruct Hp as [Hv HG1].
    destruct t; try destruct Hv; cbn [orb] in Ht; apply (IH G1 s1 (v :: acc) T G' Ht HG1).
Qed.

Lemma star_post k b t G0 : tcheck [] b = Some (t, G0) -> forall acc s,
  Forall (has_ty t) acc ->
  match star r k b acc s with
  | Done true v s' => fr s' = fr s /\ has_ty (TList t) v
  | Done false _ s' => fr s' = fr s
  | _ => True end.
Proof.
  intros Hb. induction k as [|k IH]; intros acc s Hacc; cbn [star]; [exact I|].
  pose proof (with_frame_post b s t G0 Hb) as Hw.
  destruct (with_frame (r b) s) as [[|] v s1|x s1|]; cbn [bindr]; auto.
  - destruct Hw as [Hf Hv].
    specialize (IH (v :: acc) s1 (Forall_cons _ Hv Hacc)). rewrite Hf in IH. exact IH.
  - split; [exact Hw|]. exists (rev acc). split; [reflexivity|]. apply Forall_rev. exact Hacc.
Qed.

Lemma body_post fuel : forall e s G T G', tcheck G e = Some (T, G') -> frame_typed G (fr s) ->
  post T G' (body g action_sem pred_sem r fuel e s).
Proof.
  intros e s G T G' Ht HG. destruct e; cbn [body]; cbn [Typing.tcheck] in Ht.
  - (* action *)
    destruct (tcheck G e) as [[tb G1]|] eqn:Eb; [|discriminate].
    destruct (params_ok G1 (act_params id)) eqn:Ep; [|discriminate]. injection Ht as <- <-.
    pose proof (Hgood e s G tb G1 Eb HG) as Hp.
    destruct (r e s) as [[|] v s1|x s1|]; cbn [bindr]; try exact I. cbn in Hp. destruct Hp as [Hv HG1].
    pose proof (Hact id (fr s1) (text_between (inp s) (inp s1)) (params_ok_sound _ _ _ Ep HG1)) as Ha.
    destruct (action_sem id (fr s1) (text_between (inp s) (inp s1))) as [v'|v'|]; cbn; try exact I;
      (split; [|exact HG1]); destruct tb; try exact Ha; destruct Hv.
  - (* and-code: never succeeds *)
    pose proof (Hpred id (fr s)) as Hf. destruct (pred_sem id (fr s)) as [b e]. cbn in Hf. subst b. exact I.
  - (* not-code *)
    injection Ht as <- <-. destruct (pred_sem id (fr s)) as [b e]. destruct (negb b); [|exact I].
    cbn. split; [exact I|]. destruct e; exact HG.
  - (* and *)
    destruct (tcheck [] e) as [[t G0]|] eqn:Eb; [|discriminate]. injection Ht as <- <-.
    pose proof (with_frame_post e s t G0 Eb) as Hw.
    destruct (with_frame (r e) s) as [[|] v s1|x s1|]; cbn [bindr]; try exact I.
    cbn. split; [exact I|]. destruct Hw as [Hf _]. rewrite Hf. exact HG.
  - (* not *)
    destruct (tcheck [] e) as [[t G0]|] eqn:Eb; [|discriminate]. injection Ht as <- <-.
    pose proof (with_frame_post e s t G0 Eb) as Hw.
    destruct (with_frame (r e) s) as [[|] v s1|x s1|]; cbn [bindr negb]; try exact I.
    cbn. split; [exact I|]. rewrite Hw. exact HG.
  - injection Ht as <- <-. destruct (inp s); [exact I|]. cbn. split; [exact I|]. rewrite fr_advance. exact HG.
  - injection Ht as <- <-. destruct (inp s); [exact I|]. destruct (class_match _ _); [|exact I].
    cbn. split; [exact I|]. rewrite fr_advance. exact HG.
  - injection Ht as <- <-. pose proof (fr_lit_go s0 (inp s) s) as Hl. destruct (lit_go s0 (inp s) s) as [ok s1]. cbn in Hl.
    destruct ok; [|exact I]. cbn. split; [exact I|]. rewrite Hl. exact HG.
  - (* choice *)
    pose proof (choice_post alts TNever s T G G' Ht) as Hc. destruct (tchoice_sub _ _ _ _ _ Ht) as [-> _].
    destruct (choice r alts s) as [[|] v s1|x s1|]; try exact I.
    cbn. destruct Hc as [Hf Hv]. split; [exact Hv|]. rewrite Hf. exact HG.
  - apply (seq_post es (inp s) G s [] T G' Ht HG).
  - (* labeled *)
    destruct (tcheck [] e) as [[t G0]|] eqn:Eb; [|discriminate]. injection Ht as <- <-.
    pose proof (with_frame_post e s t G0 Eb) as Hw.
    destruct (with_frame (r e) s) as [[|] v s1|x s1|]; cbn [bindr]; try exact I.
    cbn. destruct Hw as [Hf Hv]. split; [exact Hv|]. rewrite Hf. apply frame_typed_cons; assumption.
  - (* rule reference *)
    injection Ht as <- <-. destruct (find_rule g name) as [r0|] eqn:Ef; [|exact I].
    destruct (find_rule_in _ _ _ Ef) as [Hin Hname].
    pose proof Hg as Hg'. unfold grammar_typed in Hg'. rewrite forallb_forall in Hg'. specialize (Hg' _ Hin). unfold rule_ok in Hg'.
    destruct (tcheck [] (rexpr r0)) as [[t G0]|] eqn:Eb; [|discriminate].
    pose proof (with_frame_post (rexpr r0) s t G0 Eb) as Hw.
    destruct (with_frame (r (rexpr r0)) s) as [[|] v s1|x s1|]; try exact I.
    cbn. destruct Hw as [Hf Hv]. split; [|rewrite Hf; exact HG].
    rewrite <- Hname. eapply has_ty_sub; [exact Hg'|exact Hv].
  - (* star *)
    destruct (tcheck [] e) as [[t G0]|] eqn:Eb; [|discriminate]. injection Ht as <- <-.
    pose proof (star_post fuel e t G0 Eb [] s (Forall_nil _)) as Hs.
    destruct (star r fuel e [] s) as [[|] v s1|x s1|]; try exact I.
    cbn. destruct Hs as [Hf Hv]. split; [exact Hv|rewrite Hf; exact HG].
  - (* plus *)
    destruct (tcheck [] e) as [[t G0]|] eqn:Eb; [|discriminate]. injection Ht as <- <-.
    pose proof (with_frame_post e s t G0 Eb) as Hw.
    destruct (with_frame (r e) s) as [[|] v s1|x s1|]; cbn [bindr]; try exact I.
    destruct Hw as [Hf Hv].
    pose proof (star_post fuel e t G0 Eb [v] s1 (Forall_cons _ Hv (Forall_nil _))) as Hs.
    destruct (star r fuel e [v] s1) as [[|] v2 s2|x s2|]; try exact I.
    cbn. destruct Hs as [Hf2 Hv2]. split; [exact Hv2|rewrite Hf2, Hf; exact HG].
  - (* option *)
    destruct (tcheck [] e) as [[t G0]|] eqn:Eb; [|discriminate]. injection Ht as <- <-.
    pose proof (with_frame_post e s t G0 Eb) as Hw.
    destruct (with_frame (r e) s) as [[|] v s1|x s1|]; cbn [bindr]; try exact I;
      (cbn; split; [exact I|]).
    + destruct Hw as [Hf _]. rewrite Hf. exact HG.
    + rewrite Hw. exact HG.
Qed.

Lemma step_post fuel : forall e s G T G', tcheck G e = Some (T, G') -> frame_typed G (fr s) ->
  post T G' (step g mx action_sem pred_sem r fuel e s).
Proof.
  intros e s G T G' Ht HG. unfold step, tick. destruct mx as [m|]; cbn.
  - destruct (N.ltb _ _); [exact I|]. apply (body_post fuel e _ G T G' Ht). exact HG.
  - apply (body_post fuel e _ G T G' Ht). exact HG.
Qed.
End TS.

Theorem pe_good fuel : good (pe g mx action_sem pred_sem fuel).
Proof.
  induction fuel as [|f IH]; intros e s G T G' Ht HG; cbn [pe]; [exact I|].
  apply (step_post _ IH f e s G T G' Ht HG).
Qed.

(* parse(): an accepted value has the type of the start rule *)
Theorem parse_typed fuel input v n r0 rules :
  g = r0 :: rules ->
  parse g mx action_sem pred_sem fuel input = Accepted v n -> has_ty (rule_ty (rname r0)) v.
Proof.
  intros Eg. unfold parse. rewrite Eg.
  set (s0 := peek_err (utf8_cells input) {| inp := utf8_cells input; cnt := 0; nerr := 0; fr := [] |}).
  assert (Hin : In r0 g) by (rewrite Eg; left; reflexivity).
  pose proof Hg as Hg'. unfold grammar_typed in Hg'. rewrite forallb_forall in Hg'. specialize (Hg' _ Hin). unfold rule_ok in Hg'.
  destruct (tcheck [] (rexpr r0)) as [[t G0]|] eqn:Eb; [|discriminate].
  rewrite <- Eg.
  pose proof (with_frame_post _ (pe_good fuel) (rexpr r0) s0 t G0 Eb) as Hw.
  destruct (with_frame (pe g mx action_sem pred_sem fuel (rexpr r0)) s0) as [[|] v1 s1|[|] s1|]; try discriminate.
  destruct (Nat.eqb (nerr s1) 0) eqn:En; [|discriminate]. intros [= <- <-].
  destruct Hw as [_ Hv]. eapply has_ty_sub; [exact Hg'|exact Hv].
Qed.

(* a rejected parse always carries at least one error (the error value returned by Parse is non-nil) *)
End S.
