From Coq Require Import List ZArith String Ascii Bool NArith Lia.
Import ListNotations.
From Bexpr Require Import Base Ast Unicode Peg Typing Actions GoGrammar Sem Term Lex Lex2 Lex3 Calc Skel Top Atoms NoHdr.
Open Scope string_scope.

(* C16 (boolean skeleton), closed form: for the atom family  name(.name)* is [not] empty  every rendering of every
   tree (any whitespace, any redundant parentheses, outer whitespace) is accepted by parse and yields the tree. *)
Theorem c16_skeleton_parse input e t w0 w1 :
  rOr atom atxt aexp Empty_set htxt0 hop0 hsel0 hbind0 e t -> Forall is_ws w0 -> Forall is_ws w1 ->
  utf8_cells input = app w0 (app t w1) -> all_valid (utf8_cells input) ->
  exists f0, forall f, (f0 <= f)%nat -> exists n, parse go_grammar None action_sem pred_sem f input = Accepted (VExpr e) n.
Proof. exact (c16_parse_round_trip atom atxt aexp atom_parse atom_not_paren atom_not_not atom_head Empty_set htxt0 hop0 hsel0 hbind0 hdr_parse0 hdr_and_fails0 hdr_head0 input e t w0 w1). Qed.
Print Assumptions c16_skeleton_parse.

(* non-vacuity: a concrete rendering meets the hypotheses, and the computed parse agrees *)
Definition ch (z : Z) : cell := {| crune := z; cbytes := String (ascii_of_N (Z.to_N z)) ""; cvalid := true |}.
Lemma ident1_ok z : class_match cls_id_head z = true -> ident_ok (ch z, []).
Proof. intros H. split; [exact H| constructor]. Qed.

Definition at_a : atom.
Proof. refine {| a_first := (ch 97, []); a_rest := []; a_neg := false |}; [apply ident1_ok; reflexivity| constructor| cbn; discriminate]. Defined.
Definition at_bc : atom.
Proof.
  refine {| a_first := (ch 98, []); a_rest := [(ch 99, [])]; a_neg := true |};
    [apply ident1_ok; reflexivity| constructor; [apply ident1_ok; reflexivity| constructor]| cbn; discriminate].
Defined.

Definition ex_input := " a is empty  and not ( b.c is not empty )".
Definition ex_tree := EBin BAnd (aexp at_a) (ENot (aexp at_bc)).

Example ex_render : exists t, rOr atom atxt aexp Empty_set htxt0 hop0 hsel0 hbind0 ex_tree t /\ utf8_cells ex_input = app [sp] (app t []).
Proof.
  eexists. split.
  - apply r_or_and.
    refine (r_and atom atxt aexp Empty_set htxt0 hop0 hsel0 hbind0 _ _ _ _ [sp; sp] [sp] _ _ _ _).
    + apply r_not_par. apply (r_atom atom atxt aexp Empty_set htxt0 hop0 hsel0 hbind0 at_a).
    + split; [discriminate| repeat constructor].
    + split; [discriminate| repeat constructor].
    + apply r_and_not. refine (r_not atom atxt aexp Empty_set htxt0 hop0 hsel0 hbind0 _ _ [sp] _ _ _).
      * apply r_not_par. refine (r_paren atom atxt aexp Empty_set htxt0 hop0 hsel0 hbind0 _ _ [sp] [sp] _ _ _); [|repeat constructor|repeat constructor].
        apply r_or_and. apply r_and_not. apply r_not_par. apply (r_atom atom atxt aexp Empty_set htxt0 hop0 hsel0 hbind0 at_bc).
      * split; [discriminate| repeat constructor].
      * exact I.
  - vm_compute. reflexivity.
Qed.

Example ex_parse : exists n, parse go_grammar None action_sem pred_sem 2000 ex_input = Accepted (VExpr ex_tree) n.
Proof. eexists. vm_compute. reflexivity. Qed.
