From Coq Require Import List ZArith String Ascii Bool NArith Lia.
Import ListNotations.
From Bexpr Require Import Base Ast Unicode Peg Typing Actions GoGrammar Sem Term Lex Lex2 Lex3 Calc Calc2 Skel Top Atoms StrLit AtomsEq Spell Ptr Coll AtomsIn Values Sels AtomsOp AtomsNotIn.
Open Scope string_scope.

(* non-vacuity of c16_full_parse5 with a bare and a raw literal *)
Definition cz (z : Z) : cell := {| crune := z; cbytes := String (ascii_of_N (Z.to_N z)) ""; cvalid := true |}.
Lemma idok z : class_match cls_id_head z = true -> ident_ok (cz z, []).
Proof. intros H. split; [exact H| constructor]. Qed.

Definition lay1 : oplay :=
  {| o_x1 := sp; o_a1 := []; o_x2 := sp; o_a2 := []; o_x3 := sp; o_a3 := [];
     o_h1 := is_ws_sp; o_h1' := Forall_nil _; o_h2 := is_ws_sp; o_h2' := Forall_nil _; o_h3 := is_ws_sp; o_h3' := Forall_nil _ |}.

Lemma foo_ok : ident_ok (cz 102, [cz 111; cz 111]).
Proof. split; [reflexivity|]. apply Forall_cons; [reflexivity|]. apply Forall_cons; [reflexivity|]. apply Forall_nil. Qed.
Definition bare_foo : vlit := of_bare (cz 102, [cz 111; cz 111]) [] foo_ok (Forall_nil _).

Definition raw_x : rlit.
Proof.
  refine {| r_q := cz 96; r_cs := [cz 120; cz 46; cz 42]; r_q' := cz 96; r_lit := "x.*";
            r_hq := eq_refl; r_hq' := eq_refl; r_body := _; r_unq := _ |}.
  - repeat (apply Forall_cons; [cbn; discriminate|]). apply Forall_nil.
  - vm_compute. reflexivity.
Defined.

(* a selector in mixed spelling  a.b["c"].0  and one in pointer spelling  "/d/e"  *)
Definition seg_b : seg := SDot (cz 98) [].
Definition seg_c : seg := SIdx (cz 91) [] (cz 34) [cz 99] (cz 34) [] (cz 93) "c".
Definition seg_0 : seg := SNum (cz 48) [].
Lemma segs_ok : Forall seg_ok [seg_b; seg_c; seg_0].
Proof.
  apply Forall_cons; [split; [reflexivity| apply Forall_nil]|].
  apply Forall_cons; [cbn [seg_ok seg_c]; split; [reflexivity|]; split; [reflexivity|]; split; [apply Forall_nil|]; split; [apply Forall_nil|];
    split; [left; split; [reflexivity|]; split; [reflexivity|]; apply Forall_cons; [cbn; discriminate| apply Forall_nil]| reflexivity]|].
  apply Forall_cons; [split; [reflexivity| apply Forall_nil]| apply Forall_nil].
Qed.
Lemma segs_ne : [seg_b; seg_c; seg_0] <> [].
Proof. discriminate. Qed.
Definition sel_mixed : selr := of_mixed (cz 97) [] [seg_b; seg_c; seg_0] eq_refl (Forall_nil _) segs_ok (or_intror segs_ne).

Definition ps_de : list pseg := [(cz 100, []); (cz 101, [])].
Lemma ps_ok : Forall pseg_ok ps_de.
Proof. apply Forall_cons; [split; [vm_compute; reflexivity| apply Forall_nil]|]. apply Forall_cons; [split; [vm_compute; reflexivity| apply Forall_nil]| apply Forall_nil]. Qed.
Definition sel_ptr : selr := of_pointer (cz 34) ps_de (cz 34) ["d"; "e"] eq_refl eq_refl ps_ok ltac:(discriminate) eq_refl.

Definition at1 : opatom := {| p_op := VNeq; p_lay := lay1; p_lit := bare_foo; p_sr := sel_mixed |}.
Definition at2 : opatom := {| p_op := VNotMatches; p_lay := lay1; p_lit := of_rlit raw_x; p_sr := sel_ptr |}.

Definition ex5_input := "a.b[""c""].0!=foo and ""/d/e"" not matches `x.*`".
Definition ex5_tree := EBin BAnd (p_exp at1) (p_exp at2).
Notation R5 := (rOr atom5 atxt5 aexp5 chdr h_txt h_op h_sel h_bind).

Example ex5_render : exists t, R5 ex5_tree t /\ utf8_cells ex5_input = app [] (app t []).
Proof.
  eexists. split.
  - apply r_or_and.
    refine (r_and atom5 atxt5 aexp5 chdr h_txt h_op h_sel h_bind _ _ _ _ [sp] [sp] _ _ _ _).
    + apply r_not_par. exact (r_atom atom5 atxt5 aexp5 chdr h_txt h_op h_sel h_bind (inl (inr at1))).
    + split; [discriminate| repeat constructor].
    + split; [discriminate| repeat constructor].
    + apply r_and_not. apply r_not_par. exact (r_atom atom5 atxt5 aexp5 chdr h_txt h_op h_sel h_bind (inl (inr at2))).
  - vm_compute. reflexivity.
Qed.

Example ex5_tree_is : ex5_tree =
  EBin BAnd (EMatch {| stype := SelBexpr; spath := ["a"; "b"; "c"; "0"] |} OpNeq (Some "foo"))
            (EMatch {| stype := SelJsonPtr; spath := ["d"; "e"] |} OpNotMatches (Some "x.*")).
Proof. vm_compute. reflexivity. Qed.

Example ex5_parse : exists n, parse go_grammar None action_sem pred_sem 5000 ex5_input = Accepted (VExpr ex5_tree) n.
Proof. eexists. vm_compute. reflexivity. Qed.
