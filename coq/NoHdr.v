From Coq Require Import List ZArith String.
Import ListNotations.
From Bexpr Require Import Base Ast Unicode Peg Typing Actions GoGrammar Sem Term Lex Lex2 Calc Calc2 Skel.

(* the empty family of quantifier headers: instantiates the skeleton theorems for quantifier-free trees *)
Definition htxt0 (h : Empty_set) : list cell := match h with end.
Definition hop0 (h : Empty_set) : collop := match h with end.
Definition hsel0 (h : Empty_set) : selector := match h with end.
Definition hbind0 (h : Empty_set) : binding := match h with end.
Lemma hdr_parse0 : forall (h : Empty_set) K es K2 F2, seqs_ok es K K2 F2 ->
  seqs_ok (app hdr_elems es) (app (htxt0 h) K) K2 (app F2 (hdr_frame Empty_set hop0 hsel0 hbind0 h)).
Proof. intros []. Qed.
Lemma hdr_and_fails0 : forall (h : Empty_set) K, fspecj (PRef "AndExpression") (app (htxt0 h) K).
Proof. intros []. Qed.
Lemma hdr_head0 : forall (h : Empty_set) K, ws_free (app (htxt0 h) K) /\ head_not 40 (app (htxt0 h) K).
Proof. intros []. Qed.
