From Coq Require Import List ZArith String Ascii Bool NArith Lia.
Import ListNotations.
From Bexpr Require Import Base Ast Unicode Peg Typing Actions GoGrammar Sem Term Lex Lex2 Lex3 Calc Calc2 Skel Top Atoms StrLit AtomsEq Spell C07 Ptr Sels C16 Fidelity Fid2.
Open Scope string_scope.

(* Splitting a literal body into its longest prefix of pointer segments and the rest. *)
Definition isp (b : ascii) : bool := class_match cls_ptr (b2z b).
Fixpoint all_isp (s : string) : bool := match s with "" => true | String b t => isp b && all_isp t end.
Definition hd_not_p (s : string) : Prop := match s with "" => True | String b _ => isp b = false end.

Fixpoint span_ptr (s : string) : string * string :=
  match s with
  | "" => ("", "")
  | String b t => if isp b then let (run, rest) := span_ptr t in (String b run, rest) else ("", s)
  end.

Lemma span_spec s : s = fst (span_ptr s) ++ snd (span_ptr s) /\ all_isp (fst (span_ptr s)) = true /\
  hd_not_p (snd (span_ptr s)) /\ (String.length (snd (span_ptr s)) <= String.length s)%nat.
Proof.
  induction s as [|b t IH]; cbn [span_ptr]; [cbn; auto|].
  destruct (isp b) eqn:Eb.
  - destruct (span_ptr t) as [run rest]. cbn [fst snd] in *. destruct IH as [E [Ha [Hh Hl]]].
    repeat split.
    + cbn [append]. rewrite <- E. reflexivity.
    + cbn [all_isp]. rewrite Eb, Ha. reflexivity.
    + exact Hh.
    + cbn [String.length]. lia.
  - cbn [fst snd append all_isp hd_not_p]. repeat split; auto.
Qed.

Definition ns (r : string) : Prop :=
  match r with String sl (String c _) => ((b2z sl =? 47)%Z && isp c) = false | _ => True end.

Fixpoint split_ptr (fuel : nat) (s : string) : list (ascii * string) * string :=
  match fuel with
  | O => ([], s)
  | S f =>
    match s with
    | String sl (String c t) =>
        if (b2z sl =? 47)%Z && isp c then
          let rr := span_ptr t in let pr := split_ptr f (snd rr) in ((c, fst rr) :: fst pr, snd pr)
        else ([], s)
    | _ => ([], s)
    end
  end.

Definition topseg (p : ascii * string) : pseg := (acell (fst p), acells (snd p)).

Lemma all_isp_cells s : all_isp s = true -> Forall is_ptr (acells s).
Proof.
  induction s as [|b t IH]; cbn [all_isp acells]; intros H; [constructor|]. apply andb_true_iff in H. destruct H as [Hb Ht].
  constructor; [exact Hb| exact (IH Ht)].
Qed.

Lemma slash_cell sl : (b2z sl =? 47)%Z = true -> acell sl = slc.
Proof.
  intros H. apply Z.eqb_eq in H. assert (E : sl = "/"%char) by (rewrite <- (z2b_b2z sl), H; reflexivity). subst sl. reflexivity.
Qed.

Lemma split_spec : forall fuel s, (String.length s <= fuel)%nat ->
  acells s = psegs_cells (map topseg (fst (split_ptr fuel s))) (acells (snd (split_ptr fuel s))) /\
  Forall pseg_ok (map topseg (fst (split_ptr fuel s))) /\
  ns (snd (split_ptr fuel s)) /\
  (fst (split_ptr fuel s) = [] -> snd (split_ptr fuel s) = s) /\
  (fst (split_ptr fuel s) <> [] -> hd_not_p (snd (split_ptr fuel s))).
Proof.
  induction fuel as [|f IH]; intros s Hl.
  - destruct s; [|cbn in Hl; lia]. cbn. repeat split; auto; try congruence.
  - destruct s as [|sl s']; [cbn [split_ptr fst snd map psegs_cells acells ns]; repeat split; auto; try congruence|].
    destruct s' as [|c t]; [cbn [split_ptr fst snd map psegs_cells acells ns]; repeat split; auto; try congruence|].
    cbn [split_ptr].
    destruct ((b2z sl =? 47)%Z && isp c) eqn:Ec.
    + apply andb_true_iff in Ec. destruct Ec as [Esl Ecp].
      destruct (span_spec t) as [Et [Ha [Hh Hlen]]].
      assert (Hl' : (String.length (snd (span_ptr t)) <= f)%nat) by (cbn in Hl; lia).
      destruct (IH (snd (span_ptr t)) Hl') as [E1 [Hok [Hns [Hnil Hne]]]].
      cbn [fst snd map psegs_cells topseg]. repeat split.
      * cbn [acells]. rewrite (slash_cell sl Esl). f_equal. f_equal.
        rewrite Et at 1. rewrite acells_app, E1. reflexivity.
      * constructor; [split; [exact Ecp| apply all_isp_cells; exact Ha]| exact Hok].
      * exact Hns.
      * discriminate.
      * intros _. destruct (fst (split_ptr f (snd (span_ptr t)))) eqn:Ep.
        -- rewrite (Hnil eq_refl). exact Hh.
        -- apply Hne. discriminate.
    + cbn [fst snd map psegs_cells]. repeat split; auto; try congruence; try (cbn [ns]; exact Ec).
Qed.
Print Assumptions split_spec.
