From Coq Require Import List ZArith String Ascii Bool NArith Lia.
Import ListNotations.
From Bexpr Require Import Base Strconv Ast Univ Eval Wt.
Open Scope string_scope.
Global Opaque coerce parse_int parse_uint parse_float parse_bool.

(* ---- getValue and evaluate ---- *)
Fixpoint wf_ast (e : expr) : Prop :=
  match e with
  | ENot a => wf_ast a
  | EBin _ a b => wf_ast a /\ wf_ast b
  | EMatch _ o v => (op_has_value o = true -> v <> None)
  | EColl _ _ _ i => wf_ast i
  end.

Definition lwt (ls : locals) : Prop := Forall (fun nb => match snd nb with LConst v => rwt v | LAlias _ => True end) ls.

Section Ev.
Variable re : string -> string -> option bool.
Variable cfg : config.
Hypothesis Hhook : hook_ok cfg.
Hypothesis Hunk : match unknown cfg with Some u => rwt u | None => True end.

Lemma resolve_locals_wt ls : lwt ls -> forall path,
  match resolve_locals ls path with Ok (inl v) => rwt v | RPanic => False | _ => True end.
Proof.
  induction 1 as [|[n b] ls Hb _ IH]; intros path; cbn [resolve_locals]; [exact I|].
  destruct path as [|h t]; [exact I|]. destruct (String.eqb h n); [|apply IH].
  destruct b; cbn in Hb; [apply IH|]. destruct t; [exact Hb|exact I].
Qed.

Lemma get_value_wt ls path d : lwt ls -> rwt d ->
  match get_value cfg ls path d with Ok (GVal v) => rwt v | RPanic => False | _ => True end.
Proof.
  intros Hl Hd. unfold get_value. pose proof (resolve_locals_wt ls Hl path) as Hr.
  destruct (resolve_locals ls path) as [[v|p]| |]; try exact Hr; try exact I.
  pose proof (get_wt cfg p d Hhook Hd) as Hg.
  destruct (get cfg p d) as [v|e|]; cbn in Hg; try exact Hg; try contradiction.
  destruct e; try exact I. destruct (unknown cfg); [exact Hunk|]. destruct (not_present_ok cfg p d); exact I.
Qed.

Lemma opt_bind_lwt name b : (match b with LConst v => rwt v | LAlias _ => True end) -> lwt (opt_bind name b).
Proof. intros H. unfold opt_bind, lwt. destruct (String.eqb name ""); constructor; [exact H|constructor]. Qed.
Lemma lwt_app a b : lwt a -> lwt b -> lwt (app a b).
Proof. unfold lwt. intros. apply Forall_app. split; assumption. Qed.

Lemma bind_elem_lwt b sp m i k : lwt (bind_elem b sp m i k).
Proof.
  unfold bind_elem. destruct m; apply lwt_app; try apply lwt_app; apply opt_bind_lwt; try exact I; reflexivity.
Qed.

Lemma coll_loop_np ev op b sp m : (forall i k, ev (bind_elem b sp m i k) <> Panic) ->
  forall items i, coll_loop ev op b sp m i items <> Panic.
Proof.
  intros He. induction items as [|k r IH]; intros i; cbn [coll_loop]; [discriminate|].
  destruct (same_name b); [discriminate|]. specialize (He i k).
  destruct (ev (bind_elem b sp m i k)) as [x [e|]|]; [discriminate| |congruence].
  destruct (decisive op x); [discriminate|apply IH].
Qed.

Theorem eval_np e : forall ls d, wf_ast e -> lwt ls -> rwt d -> eval re cfg ls e d <> Panic.
Proof.
  induction e as [a IHa | op a IHa b IHb | s op raw | op s b inner IH]; intros ls d Hwf Hl Hd; cbn [eval].
  - specialize (IHa ls d Hwf Hl Hd). destruct (eval re cfg ls a d) as [x [e|]|]; [discriminate|discriminate|congruence].
  - destruct Hwf as [Hwa Hwb]. specialize (IHa ls d Hwa Hl Hd). specialize (IHb ls d Hwb Hl Hd).
    destruct op; destruct (eval re cfg ls a d) as [x e|]; try congruence; destruct (_ || _); try discriminate; exact IHb.
  - pose proof (get_value_wt ls (spath s) d Hl Hd) as Hg.
    destruct (get_value cfg ls (spath s) d) as [[v|]|e|]; try discriminate; try contradiction.
    apply match_op_np; [exact Hg|exact Hwf].
  - pose proof (get_value_wt ls (spath s) d Hl Hd) as Hg.
    destruct (get_value cfg ls (spath s) d) as [[v|]|e|]; try discriminate; try contradiction.
    assert (Hev : forall i k m, eval re cfg (app (bind_elem b (spath s) m i k) ls) inner d <> Panic).
    { intros i k m. apply IH; [exact Hwf| |exact Hd]. apply Forall_app. split; [apply bind_elem_lwt|exact Hl]. }
    destruct (kind_of v); try discriminate; destruct v as [[t x]|]; try discriminate; destruct x; try discriminate;
      try (destruct (type_eqb _ _); try discriminate); apply coll_loop_np; intros; apply Hev.
Qed.

(* an error always comes with false *)
Definition errfalse (o : outcome) : Prop :=
  match o with Out b e => match e with Some _ => b = false | None => True end | Panic => True end.

Lemma negate_ef o : errfalse (negate o).
Proof. destruct o as [[|] [e|]|]; cbn; auto. Qed.
Ltac ef := repeat (cbn [errfalse]; auto;
  match goal with
  | |- context [match eq_fn ?c ?l ?v with _ => _ end] => destruct (eq_fn c l v) as [[|]|]
  | |- context [match coerce ?k ?r with _ => _ end] => let e := fresh "e" in destruct (coerce k r) as [?|e|]; [| try destruct e |]
  | |- context [match sclass_of ?k with _ => _ end] => destruct (sclass_of k)
  end).

Lemma do_equal_ef raw v : errfalse (do_equal raw v).
Proof. unfold do_equal. destruct raw; ef. Qed.
Lemma in_typed_ef c l els : errfalse (in_typed_elems c l els).
Proof. induction els as [|e r IH]; cbn [in_typed_elems]; [cbn; auto|]. destruct (deref_value e); [|exact IH]. ef. Qed.
Lemma in_iface_ef raw els : errfalse (in_iface_elems raw els).
Proof.
  induction els as [|e r IH]; cbn [in_iface_elems]; [cbn; auto|]. destruct (deref_value _) as [[t x]|]; [|exact IH]. ef.
Qed.
Lemma in_elems_ef raw it els : errfalse (in_elems raw it els).
Proof. unfold in_elems. destruct (kind_of_type it); try apply in_iface_ef; ef; apply in_typed_ef. Qed.
Lemma in_map_ef raw t kvs : errfalse (in_map raw t kvs).
Proof. unfold in_map. destruct (type_eqb _ _); [cbn; auto|]. destruct (kind_of_type _); cbn; auto. Qed.
Lemma do_in_ef raw v : errfalse (do_in raw v).
Proof.
  unfold do_in. destruct raw as [r|]; [|cbn; auto].
  destruct (coerce (kind_of v) r) as [mv|c|]; [|cbn; auto|cbn; auto].
  destruct (kind_of v); try (cbn; auto; fail); destruct v as [[t x]|]; try (cbn; auto; fail);
    try (destruct (r_elems _); [apply in_elems_ef|cbn; auto]);
    destruct x; try (cbn; auto; fail); apply in_map_ef.
Qed.
Lemma do_is_empty_ef v : errfalse (do_is_empty v).
Proof. unfold do_is_empty. destruct (kind_of v); try (cbn; auto); destruct (r_len v); (cbn; auto). Qed.
Lemma do_matches_ef raw v : errfalse (do_matches re raw v).
Proof. unfold do_matches. destruct (bytes_of v) as [[s|]|]; try (cbn; auto). destruct raw; [|(cbn; auto)]. destruct (re _ _); (cbn; auto). Qed.
Lemma match_op_ef op raw v : errfalse (match_op re op raw v).
Proof.
  unfold match_op. destruct (json_narrow v); try (cbn; auto).
  destruct op; try apply negate_ef; auto using do_equal_ef, do_in_ef, do_is_empty_ef, do_matches_ef.
Qed.
Lemma coll_loop_ef ev op b sp m : forall items i, errfalse (coll_loop ev op b sp m i items).
Proof.
  induction items as [|k r IH]; intros i; cbn [coll_loop]; [(cbn; auto)|]. destruct (same_name b); [(cbn; auto)|].
  destruct (ev _) as [x [e|]|]; try (cbn; auto). destruct (decisive op x); [(cbn; auto)|apply IH].
Qed.

Theorem eval_errfalse e : forall ls d, errfalse (eval re cfg ls e d).
Proof.
  induction e as [a IHa | op a IHa b IHb | s op raw | op s b inner IH]; intros ls d; cbn [eval].
  - destruct (eval re cfg ls a d) as [x [e|]|]; cbn; auto.
  - specialize (IHa ls d). specialize (IHb ls d).
    destruct op; destruct (eval re cfg ls a d) as [x [e|]|]; cbn [is_err orb]; try exact IHa; try (cbn; auto; fail);
      destruct x; cbn [negb]; first [exact IHb | cbn; auto].
  - destruct (get_value cfg ls (spath s) d) as [[v|]|e|]; try (cbn; auto; fail). apply match_op_ef.
  - destruct (get_value cfg ls (spath s) d) as [[v|]|e|]; try (cbn; auto; fail).
    destruct (kind_of v); destruct v as [[t x]|]; try destruct x; try destruct (type_eqb _ _);
      first [apply coll_loop_ef | cbn; auto].
Qed.
End Ev.

(* C09 on the repaired model *)
Theorem c09_no_panic_hook re cfg e d :
  hook_ok cfg -> (match unknown cfg with Some u => rwt u | None => True end) ->
  wf_ast e -> rwt d -> eval re cfg [] e d <> Panic.
Proof. intros Hh Hu Hw Hd. apply eval_np; auto. constructor. Qed.

Theorem c09_no_panic re cfg e d :
  hook cfg = None -> (match unknown cfg with Some u => rwt u | None => True end) ->
  wf_ast e -> rwt d -> eval re cfg [] e d <> Panic.
Proof. intros Hh. apply c09_no_panic_hook. apply hook_none_ok. exact Hh. Qed.

Theorem c09_error_false re cfg e d b c : eval re cfg [] e d = Out b (Some c) -> b = false.
Proof. intros H. pose proof (eval_errfalse re cfg e [] d) as He. rewrite H in He. exact He. Qed.

Print Assumptions c09_no_panic.
Print Assumptions c09_error_false.
