From Coq Require Import List ZArith String Ascii Bool NArith Lia.
Import ListNotations.
From Bexpr Require Import Base Ast Unicode Peg Typing Actions GoGrammar.
Open Scope string_scope.

(* D9 on the unchanged grammar: with the original Value action (the selector's String() whatever the selector type)
   the literal fidelity statement is false; the witness is the one replayed on the real code. *)
Definition action_sem_unrepaired (id : string) (f : frame) (text : string) : ares :=
  if String.eqb id "Value2"
  then match lookup f "selector" with VSel s => AVal (VMV (selector_string s)) | _ => APanic end
  else action_sem id f text.

Theorem c16_refuted_unrepaired :
  exists n, parse go_grammar None action_sem_unrepaired pred_sem 3000 "X == ""/usr/bin"""
            = Accepted (VExpr (EMatch {| stype := SelBexpr; spath := ["X"] |} OpEq (Some "usr/bin"))) n.
Proof. eexists. vm_compute. reflexivity. Qed.

(* ... and the repaired action gives the literal back *)
Theorem c16_repaired_witness :
  exists n, parse go_grammar None action_sem pred_sem 3000 "X == ""/usr/bin"""
            = Accepted (VExpr (EMatch {| stype := SelBexpr; spath := ["X"] |} OpEq (Some "/usr/bin"))) n.
Proof. eexists. vm_compute. reflexivity. Qed.
Print Assumptions c16_refuted_unrepaired.
