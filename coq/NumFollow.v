(* What may follow a number literal, with the runes spelled out: any blank of the language (space, tab, carriage return, line feed),
   a closing parenthesis, a closing brace, or the end of the text.  A corollary of Num.after_numbers_ok, stated over the rule
   AfterNumbers of the grammar regenerated from /repo; it is part of what "the language" means for C15 (a rewrite of that rule in both
   grammar files alike moves the reference semantics with it, and only a statement like this one objects). *)
From Coq Require Import List ZArith String Bool.
Import ListNotations.
From Bexpr Require Import Base Ast Unicode Peg Typing Actions GoGrammar Sem Term Lex Lex2 Lex3 Calc Calc2 Skel Top Num.
Open Scope string_scope.

Lemma number_followers (c : cell) (k : list cell) :
  In (crune c) [32; 9; 13; 10; 41; 125]%Z -> all_valid (c :: k) -> pe_ok (PRef "AfterNumbers") (c :: k) (c :: k) [].
Proof.
  intros Hin Hv. apply after_numbers_ok; [|exact Hv]. cbn [astop].
  cbn [In] in Hin.
  destruct Hin as [H|[H|[H|[H|[H|[H|[]]]]]]];
    first [ left; unfold is_ws; rewrite <- H; reflexivity | right; left; symmetry; exact H | right; right; symmetry; exact H ].
Qed.
Lemma number_at_the_end : pe_ok (PRef "AfterNumbers") [] [] [].
Proof. apply after_numbers_ok; [exact I| constructor]. Qed.
