From Coq Require Import List ZArith String Ascii Bool NArith Lia.
Import ListNotations.
From Bexpr Require Import Base Ast Unicode Peg Typing Actions GoGrammar Sem Term Lex Lex2 Lex3 Calc Calc2 Skel Top Atoms StrLit AtomsEq Spell C07 Ptr Sels KwMiss.
Open Scope string_scope.

(* A concrete family of quantifier headers:   any|all  name(.name)*  as  x  {   (one-name binding). *)

Definition K_any := lit_cells [97; 110; 121]%Z.
Definition K_all := lit_cells [97; 108; 108]%Z.
Definition K_as := lit_cells [97; 115]%Z.
Definition K_lb := lit_cells [123]%Z.
Definition kw_of (op : collop) : list cell := match op with CAny => K_any | CAll => K_all end.

Lemma seqs_ok_frame es i k F F' : F = F' -> seqs_ok es i k F -> seqs_ok es i k F'.
Proof. intros ->. auto. Qed.

Lemma id_stop_ws c k : is_ws c -> id_stop (c :: k).
Proof. intros H. exact (proj1 (sel_stop_ws c k H)). Qed.

(* any / all *)
Lemma coll_op_spec op x w rest : is_ws x -> Forall is_ws w -> ws_free rest ->
  spec (PChoice [PRef "CollectionOpAny"; PRef "CollectionOpAll"]) (app (kw_of op) (x :: app w rest)) (VCOp op) rest.
Proof.
  intros Hx Hw Hr. apply choice_ok. destruct op; cbn [kw_of].
  - apply specc_next.
    + eapply fref; [reflexivity|]. cbn [rexpr]. apply faction. apply fseq. apply fseqs_here.
      apply flit_prefix. reflexivity.
    + apply specc_here. apply spec_j. eapply ref_ok; [reflexivity|]. cbn [rexpr]. eapply action_ok.
      * apply seq_ok. eapply seqs_cons; [apply (lit_ok [97; 108; 108]%Z K_all _ eq_refl)|].
        eapply seqs_cons; [apply (ws_plus_ok x w rest Hx Hw Hr)|]. apply seqs_nil.
      * intros G. reflexivity.
  - apply specc_here. apply spec_j. eapply ref_ok; [reflexivity|]. cbn [rexpr]. eapply action_ok.
    + apply seq_ok. eapply seqs_cons; [apply (lit_ok [97; 110; 121]%Z K_any _ eq_refl)|].
      eapply seqs_cons; [apply (ws_plus_ok x w rest Hx Hw Hr)|]. apply seqs_nil.
    + intros G. reflexivity.
Qed.

Lemma letter_not z c : class_match cls_id_head z = true -> (c < 65 \/ (90 < c < 97) \/ 122 < c)%Z -> z <> c.
Proof.
  unfold class_match. cbn. rewrite !orb_false_r. intros H Hc E. subst z.
  apply orb_true_iff in H. destruct H as [H|H]; apply andb_true_iff in H; destruct H as [H1 H2];
    apply Z.leb_le in H1; apply Z.leb_le in H2; lia.
Qed.

(* the one-name binding *)
Lemma bind_one_spec c cs w4 K : class_match cls_id_head (crune c) = true -> id_tail_ok cs -> Forall is_ws w4 ->
  spec (PRef "CollectionIdentifiers") (c :: app cs (app w4 (app K_lb K)))
       (VBind (mk_binding BDefault (cells_str (c :: cs)) "" "")) (app w4 (app K_lb K)).
Proof.
  intros Hh Ht Hw4.
  assert (Hstop : id_stop (app w4 (app K_lb K))).
  { destruct w4 as [|x w4]; [reflexivity|]. inversion Hw4; subst. apply id_stop_ws. assumption. }
  pose proof (ident_spec c cs _ Hh Ht Hstop) as Hid.
  assert (Hcomma : fseqs [POpt (PRef "_"); PLit [44]%Z false] (app w4 (app K_lb K))).
  { eapply fseqs_later; [apply (ws_opt_ok w4 _ Hw4); reflexivity|]. apply fseqs_here.
    refine (fails_f (head_not 44) _ _ (fails_lit 44 []) _). cbn. discriminate. }
  eapply ref_ok; [reflexivity|]. cbn [rexpr]. apply spec_j. apply choice_ok.
  apply specc_next.
  { apply faction. apply fseq. eapply fseqs_later; [apply lab_ok; exact Hid|].
    eapply fseqs_later; [apply (ws_opt_ok w4 _ Hw4); reflexivity|]. apply fseqs_here.
    refine (fails_f (head_not 44) _ _ (fails_lit 44 []) _). cbn. discriminate. }
  apply specc_next.
  { apply faction. apply fseq. eapply fseqs_later; [apply lab_ok; exact Hid|].
    eapply fseqs_later; [apply (ws_opt_ok w4 _ Hw4); reflexivity|]. apply fseqs_here.
    refine (fails_f (head_not 44) _ _ (fails_lit 44 []) _). cbn. discriminate. }
  apply specc_next.
  { apply faction. apply fseq. apply fseqs_here.
    refine (fails_f (head_not 95) _ _ (fails_lit 95 []) _). cbn. apply (letter_not _ 95 Hh). lia. }
  apply specc_here. eapply action_ok; [apply lab_ok; exact Hid|]. intros G. reflexivity.
Qed.

(* contains, not, matches, is, in *)
Definition hdr_kws : list (list Z) :=
  [[99; 111; 110; 116; 97; 105; 110; 115]; [110; 111; 116]; [109; 97; 116; 99; 104; 101; 115]; [105; 115]; [105; 110]]%Z.

Record chdr := {
  h_op : collop; h_w1x : cell; h_w1 : list cell;
  h_sr : selr;
  h_w2x : cell; h_w2 : list cell; h_w3x : cell; h_w3 : list cell;
  h_bcells : list cell; h_bval : binding; h_w4 : list cell;
  h_ws1x : is_ws h_w1x; h_ws1 : Forall is_ws h_w1; h_ws2x : is_ws h_w2x; h_ws2 : Forall is_ws h_w2;
  h_ws3x : is_ws h_w3x; h_ws3 : Forall is_ws h_w3; h_ws4 : Forall is_ws h_w4;
  h_bspec : forall w4 K, Forall is_ws w4 -> spec (PRef "CollectionIdentifiers") (app h_bcells (app w4 (app K_lb K))) (VBind h_bval) (app w4 (app K_lb K));
  h_bfree : forall K, ws_free (app h_bcells K);
  (* the quantified selector, with what follows it, is not one of the operator keywords followed by a blank *)
  h_nokw : forall K kw, sstop K -> In kw hdr_kws -> all_valid (app (s_txt h_sr) K) -> kw_miss kw (app (s_txt h_sr) K) }.

Lemma hdr_kws_id kw : In kw hdr_kws -> Forall id_rune kw.
Proof.
  unfold hdr_kws. cbn [In]. intros [H|[H|[H|[H|[H|[]]]]]]; subst kw; repeat constructor.
Qed.

(* a quantified selector in a bexpr spelling qualifies unless its name alone is one of the keywords *)
Lemma mixed_hdr_nokw c cs segs Hh Ht Hs Hn :
  (forall kw, In kw hdr_kws -> map crune (c :: cs) <> kw \/ segs <> []) ->
  forall K kw, sstop K -> In kw hdr_kws -> all_valid (app (s_txt (of_mixed c cs segs Hh Ht Hs Hn)) K) ->
  kw_miss kw (app (s_txt (of_mixed c cs segs Hh Ht Hs Hn)) K).
Proof.
  intros Hne K kw [Hk1 Hk2] Hkw. cbn [s_txt of_mixed app]. rewrite <- app_assoc, segs_cells_app. cbn [app]. intros Hv.
  apply mixed_vs_kw; try assumption; [exact (hdr_kws_id kw Hkw)| exact (Hne kw Hkw)].
Qed.

Lemma pointer_hdr_nokw q ps q' parts Hq Hq' Hok Hne E :
  forall K kw, sstop K -> In kw hdr_kws -> all_valid (app (s_txt (of_pointer q ps q' parts Hq Hq' Hok Hne E)) K) ->
  kw_miss kw (app (s_txt (of_pointer q ps q' parts Hq Hq' Hok Hne E)) K).
Proof.
  intros K kw _ Hkw _. left. cbn [s_txt of_pointer app]. unfold hdr_kws in Hkw. cbn [In] in Hkw.
  destruct Hkw as [H|[H|[H|[H|[H|[]]]]]]; subst kw; cbn [lit_miss]; left; rewrite Hq; discriminate.
Qed.

Definition h_sel (h : chdr) : selector := s_val (h_sr h).
Definition h_bind (h : chdr) : binding := h_bval h.
Definition h_after_sel (h : chdr) (K : list cell) : list cell :=
  h_w2x h :: app (h_w2 h) (app K_as (h_w3x h :: app (h_w3 h) (app (h_bcells h) (app (h_w4 h) (app K_lb K))))).
Definition h_sel_cells (h : chdr) (K : list cell) : list cell := app (s_txt (h_sr h)) (h_after_sel h K).
Definition h_txtK (h : chdr) (K : list cell) : list cell := app (kw_of (h_op h)) (h_w1x h :: app (h_w1 h) (h_sel_cells h K)).
Definition h_txt (h : chdr) : list cell := h_txtK h [].

Lemma h_after_sel_app h K1 K2 : app (h_after_sel h K1) K2 = h_after_sel h (app K1 K2).
Proof. unfold h_after_sel. repeat (cbn [app]; rewrite <- ?app_assoc). reflexivity. Qed.

Lemma h_txt_app h K : app (h_txt h) K = h_txtK h K.
Proof.
  unfold h_txt, h_txtK, h_sel_cells. repeat (cbn [app]; rewrite <- ?app_assoc).
  rewrite h_after_sel_app. reflexivity.
Qed.

Lemma h_sel_spec h K : spec (PRef "Selector") (h_sel_cells h K) (VSel (h_sel h)) (h_after_sel h K).
Proof. apply (s_spec (h_sr h)). apply sstop_ws0. exact (h_ws2x h). Qed.

Lemma hdr_parse_c h K es K2 F2 : seqs_ok es K K2 F2 ->
  seqs_ok (app (hdr_elems) es) (app (h_txt h) K) K2
          (app F2 (hdr_frame chdr h_op h_sel h_bind h)).
Proof.
  intros Hes. rewrite h_txt_app. unfold hdr_elems. cbn [app].
  eapply seqs_ok_frame; [|
    eapply seqs_cons; [apply lab_ok; apply (coll_op_spec (h_op h) (h_w1x h) (h_w1 h) _ (h_ws1x h) (h_ws1 h));
                       apply s_head_free|];
    eapply seqs_cons; [apply lab_ok; apply h_sel_spec|];
    eapply seqs_cons; [apply (ws_plus_ok (h_w2x h) (h_w2 h) _ (h_ws2x h) (h_ws2 h)); reflexivity|];
    eapply seqs_cons; [apply (lit_ok [97; 115]%Z K_as _ eq_refl)|];
    eapply seqs_cons; [apply (ws_plus_ok (h_w3x h) (h_w3 h) _ (h_ws3x h) (h_ws3 h)); apply (h_bfree h)|];
    eapply seqs_cons; [apply lab_ok; apply (h_bspec h (h_w4 h) K (h_ws4 h))|];
    eapply seqs_cons; [apply (ws_opt_ok (h_w4 h) _ (h_ws4 h)); reflexivity|];
    eapply seqs_cons; [apply (lit_ok [123]%Z K_lb K eq_refl)|]; exact Hes].
  unfold hdr_frame. repeat rewrite app_nil_r. repeat rewrite <- app_assoc. reflexivity.
Qed.
Print Assumptions hdr_parse_c.

(* ---- the header is not the beginning of an and-level expression ---- *)
Section OpsFail.
Variables (x : cell) (w rest : list cell).
Hypothesis Hx : is_ws x.
Hypothesis Hw : Forall is_ws w.
Hypothesis Hfree : ws_free rest.
Hypothesis Hsym : head_not 61 rest /\ head_not 33 rest.
Hypothesis Hkws : forall kw, In kw hdr_kws -> all_valid rest -> kw_miss kw rest.
Let K' := x :: app w rest.

Lemma kwl_stop kw : In kw hdr_kws -> stop_kwl kw K'.
Proof. intros Hc. right. exists x, w, rest. repeat split; try assumption. apply Hkws. exact Hc. Qed.

Lemma eq_like_fails c l : head_not c rest ->
  fseqs [POpt (PRef "_"); PLit (c :: l) false; POpt (PRef "_")] K'.
Proof.
  intros Hc. eapply fseqs_later; [apply (ws_opt_ok (x :: w) rest (Forall_cons _ Hx Hw) Hfree)|].
  apply fseqs_here. exact (fails_f (head_not c) _ rest (fails_lit c l) Hc).
Qed.

Ltac kwfail := eapply fref; [reflexivity|]; cbn [rexpr]; apply faction; apply fseq; apply stop_kwl_fseqs; apply kwl_stop; cbn; auto 10.

Lemma value_ops_fail :
  fspecj (PChoice [PRef "MatchEqual"; PRef "MatchNotEqual"; PRef "MatchContains"; PRef "MatchNotContains";
                   PRef "MatchMatches"; PRef "MatchNotMatches"]) K'.
Proof.
  apply fchoice. repeat (apply Forall_cons); try apply Forall_nil.
  - eapply fref; [reflexivity|]. cbn [rexpr]. apply faction. apply fseq. apply eq_like_fails. exact (proj1 Hsym).
  - eapply fref; [reflexivity|]. cbn [rexpr]. apply faction. apply fseq. apply eq_like_fails. exact (proj2 Hsym).
  - kwfail.
  - kwfail.
  - kwfail.
  - kwfail.
Qed.

Lemma is_ops_fail : fspecj (PChoice [PRef "MatchIsEmpty"; PRef "MatchIsNotEmpty"]) K'.
Proof. apply fchoice. repeat (apply Forall_cons); try apply Forall_nil; kwfail. Qed.

Lemma in_ops_fail : fspecj (PChoice [PRef "MatchIn"; PRef "MatchNotIn"]) K'.
Proof. apply fchoice. repeat (apply Forall_cons); try apply Forall_nil; kwfail. Qed.

Definition kw_ident (op : collop) : ident := match kw_of op with c :: r => (c, r) | [] => (x, []) end.
Lemma kw_ident_ok op : ident_ok (kw_ident op).
Proof. destruct op; split; try reflexivity; repeat (apply Forall_cons; [reflexivity|]); apply Forall_nil. Qed.
Definition kw_sel (op : collop) : selector := {| stype := SelBexpr; spath := [ident_str (kw_ident op)] |}.

Lemma kw_sel_spec op : spec (PRef "Selector") (app (kw_of op) K') (VSel (kw_sel op)) K'.
Proof.
  pose proof (selector_spec dotc (kw_ident op) [] K' eq_refl (sel_stop_ws x _ Hx) (kw_ident_ok op) (Forall_nil _)) as H.
  destruct op; exact H.
Qed.

Lemma kw_value_spec op : spec (PRef "Value") (app (kw_of op) K') (VMV (selector_string (kw_sel op))) K'.
Proof.
  eapply ref_ok; [reflexivity|]. cbn [rexpr]. apply spec_j. apply choice_ok. apply specc_here.
  eapply action_ok; [apply lab_ok; apply (kw_sel_spec op)|]. intros G. reflexivity.
Qed.

Lemma match_fails_on_header op : fspecj (PRef "MatchExpression") (app (kw_of op) K').
Proof.
  eapply fref; [reflexivity|]. cbn [rexpr]. apply fchoice. repeat (apply Forall_cons); try apply Forall_nil.
  - eapply fref; [reflexivity|]. cbn [rexpr]. apply faction. apply fseq.
    eapply fseqs_later; [apply lab_ok; apply (kw_sel_spec op)|]. apply fseqs_here. apply flabeled. apply value_ops_fail.
  - eapply fref; [reflexivity|]. cbn [rexpr]. apply faction. apply fseq.
    eapply fseqs_later; [apply lab_ok; apply (kw_sel_spec op)|]. apply fseqs_here. apply flabeled. apply is_ops_fail.
  - eapply fref; [reflexivity|]. cbn [rexpr]. apply fchoice. repeat (apply Forall_cons); try apply Forall_nil.
    + apply faction. apply fseq. eapply fseqs_later; [apply lab_ok; apply (kw_value_spec op)|].
      apply fseqs_here. apply flabeled. apply in_ops_fail.
    + apply fseq. eapply fseqs_later; [apply (spec_pe _ _ _ _ (kw_value_spec op))|].
      apply fseqs_here. apply flabeled. apply in_ops_fail.
Qed.

Lemma kw_head op c : (c = 40 \/ c = 110)%Z -> head_not c (app (kw_of op) K').
Proof. intros [E|E]; subst c; destruct op; cbn; discriminate. Qed.

Lemma and_fails_on_header op : fspecj (PRef "AndExpression") (app (kw_of op) K').
Proof.
  assert (Hpar : fspecj (PRef "ParenthesizedExpression") (app (kw_of op) K')).
  { eapply fref; [reflexivity|]. cbn [rexpr]. apply fchoice. repeat (apply Forall_cons); try apply Forall_nil.
    - apply faction. apply fseq. apply fseqs_here. exact (fails_f (head_not 40) _ _ (fails_lit 40 []) (kw_head op 40 (or_introl eq_refl))).
    - apply faction. apply flabeled. apply (match_fails_on_header op).
    - apply fseq. apply fseqs_here. exact (fails_f (head_not 40) _ _ (fails_lit 40 []) (kw_head op 40 (or_introl eq_refl))). }
  assert (Hnot : fspecj (PRef "NotExpression") (app (kw_of op) K')).
  { eapply fref; [reflexivity|]. cbn [rexpr]. apply fchoice. repeat (apply Forall_cons); try apply Forall_nil.
    - apply faction. apply fseq. apply fseqs_here.
      exact (fails_f (head_not 110) _ _ (fails_lit 110 [111; 116]%Z) (kw_head op 110 (or_intror eq_refl))).
    - apply faction. apply flabeled. exact Hpar. }
  eapply fref; [reflexivity|]. cbn [rexpr]. apply fchoice. repeat (apply Forall_cons); try apply Forall_nil.
  - apply faction. apply fseq. apply fseqs_here. apply flabeled. exact Hnot.
  - apply faction. apply flabeled. exact Hnot.
Qed.
End OpsFail.

Lemma hdr_and_fails_c h K : fspecj (PRef "AndExpression") (app (h_txt h) K).
Proof.
  rewrite h_txt_app. unfold h_txtK.
  apply (and_fails_on_header (h_w1x h) (h_w1 h) (h_sel_cells h K) (h_ws1x h) (h_ws1 h)) with (op := h_op h).
  - apply s_head_free.
  - apply s_head_not_sym.
  - intros kw Hkw Hv. unfold h_sel_cells in *. apply (h_nokw h); [apply sstop_ws0; exact (h_ws2x h)| exact Hkw| exact Hv].
Qed.

Lemma hdr_head_c h K : ws_free (app (h_txt h) K) /\ head_not 40 (app (h_txt h) K).
Proof. rewrite h_txt_app. unfold h_txtK. destruct (h_op h); split; cbn; try reflexivity; discriminate. Qed.
Print Assumptions hdr_and_fails_c.
