(* C01, JSON documents: the documented meaning of the eight match operators on a JSON value (`jmatch`), and the theorem that
   the evaluator's operators compute it on the Go representation of the value, for every value and every literal.
   Results are compared up to the error class: Some b = the clean result b, None = an error. *)
From Coq Require Import List ZArith String Bool NArith Lia.
Import ListNotations.
From Bexpr Require Import Base Strconv Ast Univ Eval Json.
Open Scope string_scope.

Definition clean (o : outcome) : option bool := match o with Out b None => Some b | _ => None end.

Section J.
Variable re : string -> string -> option bool.

(* == : the literal is read in the value's own type *)
Definition jeq (raw : string) (j : json) : option bool :=
  match j with
  | JBool b => match parse_bool raw with POk y => Some (Bool.eqb y b) | PErr _ => None end
  | JNum x => match parse_float raw 64 with POk y => Some (feq y x 53 11) | PErr _ => None end
  | JNumber s =>                      (* json.Number: an int64 if its text is one, else a float64 *)
      match parse_int s 10 64 with
      | POk z => match parse_int raw 0 64 with POk y => Some (Z.eqb y z) | PErr _ => None end
      | PErr _ => match parse_float s 64 with
                  | POk x => match parse_float raw 64 with POk y => Some (feq y x 53 11) | PErr _ => None end
                  | PErr _ => None end
      end
  | JStr s => Some (String.eqb raw s)
  | JNull | JArr _ | JObj _ => None
  end.

(* in : elements of a list are compared each in its own type; a literal that is not of an element's type does not
   match that element; null matches nothing; a list or object element, or an out-of-range literal, is an error *)
Fixpoint jin_elems (raw : string) (l : list json) : option bool :=
  match l with
  | [] => Some false
  | e :: r =>
    match e with
    | JNull => jin_elems raw r
    | JBool b => match parse_bool raw with
                 | POk y => if Bool.eqb y b then Some true else jin_elems raw r
                 | PErr PSyntax => jin_elems raw r | PErr PRange => None end
    | JNum x => match parse_float raw 64 with
                | POk y => if feq y x 53 11 then Some true else jin_elems raw r
                | PErr PSyntax => jin_elems raw r | PErr PRange => None end
    | JNumber s | JStr s => if String.eqb raw s then Some true else jin_elems raw r     (* a json.Number element is compared as its text *)
    | JArr _ | JObj _ => None
    end
  end.
Definition jin (raw : string) (j : json) : option bool :=
  match j with
  | JStr s => Some (str_contains s raw)
  | JArr l => jin_elems raw l
  | JObj kvs => Some (match jfind raw kvs with Some _ => true | None => false end)
  | _ => None
  end.
Definition jempty (j : json) : option bool :=
  match j with
  | JStr s => Some (Nat.eqb (String.length s) 0)
  | JArr l => Some (Nat.eqb (List.length l) 0)
  | JObj kvs => Some (Nat.eqb (List.length kvs) 0)
  | _ => None
  end.
Definition jmatches (raw : string) (j : json) : option bool :=
  match j with JStr s => re raw s | _ => None end.

Definition jmatch (op : matchop) (raw : option string) (j : json) : option bool :=
  match op, raw with
  | OpEq, Some r => jeq r j | OpNeq, Some r => option_map negb (jeq r j)
  | OpIn, Some r => jin r j | OpNotIn, Some r => option_map negb (jin r j)
  | OpIsEmpty, _ => jempty j | OpIsNotEmpty, _ => option_map negb (jempty j)
  | OpMatches, Some r => jmatches r j | OpNotMatches, Some r => option_map negb (jmatches r j)
  | _, None => None
  end.

Local Transparent coerce.

Lemma clean_negate o : o <> Panic -> clean (negate o) = option_map negb (clean o).
Proof. destruct o as [b [e|]|]; cbn; congruence. Qed.

Lemma r_elem_slot j : r_elem (slot j) = doc j.
Proof. unfold slot, doc. destruct j; reflexivity. Qed.

Lemma in_iface_json raw l :
  in_iface_elems raw (map (fun x => Some (TIface, x)) (map embed l)) <> Panic /\
  clean (in_iface_elems raw (map (fun x => Some (TIface, x)) (map embed l))) = jin_elems raw l.
Proof.
  induction l as [|e r [IHp IHc]]; [split; [discriminate|reflexivity]|].
  cbn [map in_iface_elems jin_elems].
  destruct e as [|b|x|s|s|l'|kvs]; cbn [embed r_elem deref_value deref_gval kind_of_type under sclass_of coerce eq_fn].
  - split; assumption.
  - destruct (parse_bool raw) as [y|[|]]; cbn [perr_c].
    + destruct (Bool.eqb y b); [split; [discriminate|reflexivity]|split; assumption].
    + split; assumption.
    + split; [discriminate|reflexivity].
  - destruct (parse_float raw 64) as [y|[|]]; cbn [perr_c].
    + destruct (feq y x 53 11); [split; [discriminate|reflexivity]|split; assumption].
    + split; assumption.
    + split; [discriminate|reflexivity].
  - destruct (String.eqb raw s); [split; [discriminate|reflexivity]|split; assumption].
  - destruct (String.eqb raw s); [split; [discriminate|reflexivity]|split; assumption].
  - split; [discriminate|reflexivity].
  - split; [discriminate|reflexivity].
Qed.

Lemma jfind_map_find raw kvs :
  (match map_find TString (VStr raw) (map (fun kv => (VStr (fst kv), embed (snd kv))) kvs) with Some _ => true | None => false end)
  = (match jfind raw kvs with Some _ => true | None => false end).
Proof. rewrite map_find_embed. destruct (jfind raw kvs); reflexivity. Qed.

(* which operators carry a literal (grammar: C10 typing) *)
Definition has_value (op : matchop) : bool := match op with OpIsEmpty | OpIsNotEmpty => false | _ => true end.

Ltac parse_cases :=
  repeat match goal with
  | |- context [match parse_bool ?r with _ => _ end] => destruct (parse_bool r) as [?|[|]]
  | |- context [match parse_float ?r ?b with _ => _ end] => destruct (parse_float r b) as [?|[|]]
  | |- context [match parse_int ?r ?b ?c with _ => _ end] => destruct (parse_int r b c) as [?|[|]]
  | |- context [match re ?p ?s with _ => _ end] => destruct (re p s) as [[|]|]
  end.

(* every operator on every JSON value: never a panic, and the clean result is the documented one *)
Theorem match_op_json op raw j : (has_value op = true -> raw <> None) ->
  match_op re op raw (doc j) <> Panic /\ clean (match_op re op raw (doc j)) = jmatch op raw j.
Proof.
  intros Hv.
  assert (Hraw : has_value op = true -> exists r, raw = Some r).
  { intros H. destruct raw as [r|]; [eauto|]. exfalso. apply (Hv H). reflexivity. }
  destruct j as [|b|x|s|s|l|kvs].
  - (* null *)
    unfold doc, slot. cbn [embed r_interface]. unfold match_op, json_narrow, r_indirect. cbn [kind_of].
    destruct op; try (destruct (Hraw eq_refl) as [r ->]); cbn; split; try discriminate; try reflexivity.
  - (* bool *)
    unfold doc, slot. cbn [embed r_interface]. unfold match_op, json_narrow, r_indirect. cbn [kind_of kind_of_type under].
    destruct op; try (destruct (Hraw eq_refl) as [r ->]);
      cbn [do_equal do_in do_is_empty do_matches bytes_of kind_of kind_of_type under sclass_of coerce eq_fn negate jmatch jeq jin jempty jmatches clean option_map perr_c];
      parse_cases; cbn; split; try discriminate; try reflexivity.
  - (* float64 *)
    unfold doc, slot. cbn [embed r_interface]. unfold match_op, json_narrow, r_indirect. cbn [kind_of kind_of_type under].
    destruct op; try (destruct (Hraw eq_refl) as [r ->]);
      cbn [do_equal do_in do_is_empty do_matches bytes_of kind_of kind_of_type under sclass_of coerce eq_fn negate jmatch jeq jin jempty jmatches clean option_map perr_c];
      parse_cases; cbn; split; try discriminate; try reflexivity.
  - (* json.Number *)
    unfold doc, slot. cbn [embed r_interface]. unfold match_op, json_narrow. cbn [is_json_number String.eqb Ascii.eqb Bool.eqb].
    destruct (parse_int s 10 64) as [z|e1] eqn:E1; [|destruct (parse_float s 64) as [f|e2] eqn:E2];
      unfold r_indirect; cbn [kind_of kind_of_type under];
      destruct op; try (destruct (Hraw eq_refl) as [r ->]);
      cbn [do_equal do_in do_is_empty do_matches bytes_of kind_of kind_of_type under sclass_of coerce eq_fn negate jmatch jeq jin jempty jmatches clean option_map perr_c];
      rewrite ?E1, ?E2; parse_cases; cbn; split; try discriminate; try reflexivity.
  - (* string *)
    unfold doc, slot. cbn [embed r_interface]. unfold match_op, json_narrow. cbn [is_json_number]. unfold r_indirect. cbn [kind_of kind_of_type under].
    destruct op; try (destruct (Hraw eq_refl) as [r ->]);
      cbn [do_equal do_in do_is_empty do_matches bytes_of r_len kind_of kind_of_type under sclass_of coerce eq_fn negate jmatch jeq jin jempty jmatches clean option_map perr_c];
      parse_cases; cbn; split; try discriminate; try reflexivity.
  - (* list *)
    unfold doc, slot. cbn [embed r_interface]. unfold match_op, json_narrow, r_indirect. cbn [kind_of kind_of_type under].
    pose proof (in_iface_json) as Hin.
    destruct op; try (destruct (Hraw eq_refl) as [r ->]);
      cbn [do_equal do_in do_is_empty do_matches bytes_of r_len r_elems elem_type deref_type in_elems type_eqb kind_of kind_of_type under sclass_of coerce eq_fn negate jmatch jeq jin jempty jmatches clean option_map perr_c];
      try (split; [discriminate|reflexivity]).
    + destruct (Hin r l) as [Hp Hc]. split; assumption.
    + destruct (Hin r l) as [Hp Hc]. split; [destruct (in_iface_elems _ _) as [? [?|]|]; cbn; congruence|].
      rewrite clean_negate by exact Hp. rewrite Hc. reflexivity.
    + rewrite map_length. split; [discriminate|reflexivity].
    + rewrite map_length. split; [discriminate|reflexivity].
  - (* object *)
    unfold doc, slot. cbn [embed r_interface]. unfold match_op, json_narrow, r_indirect. cbn [kind_of kind_of_type under].
    destruct op; try (destruct (Hraw eq_refl) as [r ->]);
      cbn [do_equal do_in do_is_empty do_matches bytes_of r_len in_map key_type type_eqb kind_of kind_of_type under sclass_of coerce eq_fn negate jmatch jeq jin jempty jmatches clean option_map perr_c];
      try (split; [discriminate|reflexivity]).
    + rewrite jfind_map_find. split; [discriminate|reflexivity].
    + rewrite jfind_map_find. split; [discriminate|]. destruct (jfind r kvs); reflexivity.
    + rewrite map_length. split; [discriminate|reflexivity].
    + rewrite map_length. split; [discriminate|reflexivity].
Qed.
End J.
Print Assumptions match_op_json.
