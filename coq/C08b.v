(* C08: a field renamed by the tag is reachable only under its tag name (no dependency on the grammar files) *)
From Coq Require Import List ZArith String Ascii Bool NArith Lia.
Import ListNotations.
From Bexpr Require Import Base Strconv Ast Univ Eval.
Open Scope string_scope.

(* ---------- C08: a field renamed by the tag is reachable only under its tag name ---------- *)
Theorem c08_rename tn name tg ft v rest restv part :
  tg <> "" -> before_comma tg <> "-" -> contains_byte "|"%char (before_comma tg) = false ->
  (* the field [name] tagged [tg] is first *)
  let fs := FD name true [(tn, tg)] ft :: rest in
  (part = before_comma tg -> get_struct tn part fs (v :: restv) None false = FFound ft v) /\
  (part = name -> name <> before_comma tg -> get_struct tn part fs (v :: restv) None false = get_struct tn part rest restv None false).
Proof.
  intros Hne Hd Hb fs. unfold fs. cbn [get_struct negb tag_get]. rewrite String.eqb_refl.
  replace (String.eqb tg "") with false by (symmetry; apply String.eqb_neq; exact Hne). rewrite Hb.
  replace (String.eqb (before_comma tg) "-") with false by (symmetry; apply String.eqb_neq; exact Hd).
  split.
  - intros ->. rewrite String.eqb_refl. reflexivity.
  - intros -> Hn. replace (String.eqb (before_comma tg) name) with false by (symmetry; apply String.eqb_neq; congruence). reflexivity.
Qed.
Print Assumptions c08_rename.
