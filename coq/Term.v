From Coq Require Import List ZArith String Bool NArith Lia Wf_nat.
Import ListNotations.
From Bexpr Require Import Base Ast Unicode Peg FuelMono.
Open Scope string_scope.

(* ===== static analysis ===== *)
Section Static.
Variable nt : string -> bool.                 (* claimed nullability of each rule (an over-approximation) *)
Variable rk : string -> nat.                  (* rank of each rule: left-reachable references go strictly down *)
Variable K : nat.                             (* a level above every rank: what may be entered after input was consumed *)

Fixpoint nul (e : pexpr) : bool :=
  match e with
  | PAction _ b | PLabeled _ b | PPlus b => nul b
  | PAndCode _ | PNotCode _ | PAnd _ | PNot _ | PStar _ | POpt _ => true
  | PAny | PClass _ => false
  | PLit l _ => match l with [] => true | _ => false end
  | PChoice alts => existsb nul alts
  | PSeq es => forallb nul es
  | PRef n => nt n
  end.

Fixpoint wfa (k : nat) (e : pexpr) : bool :=
  match e with
  | PAction _ b | PLabeled _ b | PAnd b | PNot b | POpt b => wfa k b
  | PStar b | PPlus b => wfa k b && negb (nul b)
  | PAndCode _ | PNotCode _ | PAny | PClass _ | PLit _ _ => true
  | PChoice alts => forallb (wfa k) alts
  | PSeq es =>
      (fix go (es : list pexpr) (k : nat) : bool :=
         match es with [] => true | a :: r => wfa k a && go r (if nul a then k else K) end) es k
  | PRef n => Nat.ltb (rk n) k
  end.

Definition wf_seq := fix go (es : list pexpr) (k : nat) : bool :=
  match es with [] => true | a :: r => wfa k a && go r (if nul a then k else K) end.
Lemma wfa_seq k es : wfa k (PSeq es) = wf_seq es k. Proof. reflexivity. Qed.

Definition grammar_wf (g : list rule) : bool :=
  forallb (fun r => wfa (rk (rname r)) (rexpr r) && Nat.ltb (rk (rname r)) K && (negb (nul (rexpr r)) || nt (rname r))) g.
End Static.

(* ===== dynamic facts: input never grows, failure consumes nothing, success without consumption implies nullable ===== *)
Definition ilen (s : st) : nat := List.length (inp s).

Lemma ilen_set_inp s i : ilen (set_inp s i) = List.length i. Proof. reflexivity. Qed.
Lemma ilen_add_err s : ilen (add_err s) = ilen s. Proof. reflexivity. Qed.
Lemma ilen_set_fr s f : ilen (set_fr s f) = ilen s. Proof. reflexivity. Qed.
Lemma ilen_bind_label s l v : ilen (bind_label s l v) = ilen s. Proof. reflexivity. Qed.
Lemma inp_peek_err i s : inp (peek_err i s) = inp s.
Proof. destruct i as [|c i]; cbn; [reflexivity|]. destruct (cvalid c); reflexivity. Qed.
Lemma ilen_advance s : ilen (advance s) = pred (ilen s).
Proof. unfold advance, ilen. destruct (inp s) as [|c i] eqn:E; [rewrite E; reflexivity|]. rewrite inp_peek_err. reflexivity. Qed.

Lemma lit_go_spec l start : forall s,
  let '(ok, s') := lit_go l start s in
  if ok then (ilen s' + List.length l = ilen s)%nat else inp s' = start.
Proof.
  induction l as [|c l IH]; intros s; cbn [lit_go]; [cbn; lia|].
  destruct (inp s) as [|x i] eqn:E; [reflexivity|]. destruct (Z.eqb (crune x) c); [|reflexivity].
  specialize (IH (advance s)). destruct (lit_go l start (advance s)) as [ok s']. destruct ok; [|exact IH].
  rewrite ilen_advance in IH. unfold ilen in *. rewrite E in *. cbn in *. lia.
Qed.

Section Dyn.
Variable g : list rule.
Variable mx : option N.
Variable action_sem : string -> frame -> string -> ares.
Variable pred_sem : string -> frame -> bool * bool.
Variable nt : string -> bool.
Hypothesis Hnt : forall n r, find_rule g n = Some r -> nul nt (rexpr r) = true -> nt n = true.
Notation nul := (nul nt).

(* what we know about a finished run *)
Definition post (e : pexpr) (s : st) (r : res) : Prop :=
  match r with
  | Done true _ s' => (ilen s' <= ilen s)%nat /\ (ilen s' = ilen s -> nul e = true)
  | Done false _ s' => ilen s' = ilen s
  | _ => True
  end.

Section R.
Variable r : pexpr -> st -> res.
Hypothesis Hr : forall e s, post e s (r e s).

Lemma wf_post e s : post e s (with_frame (r e) s).
Proof. unfold with_frame. pose proof (Hr e (set_fr s [])) as H. destruct (r e (set_fr s [])) as [[|] v s'|a s'|]; cbn in *; auto. Qed.

Lemma choice_post alts : forall s, post (PChoice alts) s (choice r alts s).
Proof.
  induction alts as [|a alts IH]; intros s; cbn [choice]; [reflexivity|].
  pose proof (wf_post a s) as Ha. destruct (with_frame (r a) s) as [[|] v s1|x s1|]; cbn [bindr]; try exact I.
  - cbn in *. destruct Ha as [H1 H2]. split; [exact H1|]. intros E. rewrite (H2 E). reflexivity.
  - specialize (IH s1). cbn in Ha. destruct (choice r alts s1) as [[|] v2 s2|x s2|]; cbn in *; try exact I.
    + destruct IH as [H1 H2]. split; [lia|]. intros E. rewrite H2 by lia. apply orb_true_r.
    + lia.
Qed.

Lemma seq_post es start : forall acc s, (List.length start >= ilen s)%nat ->
  match seq r es start acc s with
  | Done true _ s' => (ilen s' <= ilen s)%nat /\ (ilen s' = ilen s -> forallb nul es = true)
  | Done false _ s' => inp s' = start
  | _ => True end.
Proof.
  induction es as [|a es IH]; intros acc s Hs; cbn [seq]; [cbn; auto|].
  pose proof (Hr a s) as Ha. destruct (r a s) as [[|] v s1|x s1|]; cbn [bindr]; try exact I; [|reflexivity].
  cbn in Ha. destruct Ha as [H1 H2]. specialize (IH (v :: acc) s1 ltac:(lia)).
  destruct (seq r es start (v :: acc) s1) as [[|] v2 s2|x s2|]; try exact I; [|exact IH].
  destruct IH as [H3 H4]. split; [lia|]. intros E. cbn [forallb]. rewrite H2 by lia. rewrite H4 by lia. reflexivity.
Qed.

Lemma star_post k b : forall acc s,
  match star r k b acc s with Done true _ s' => (ilen s' <= ilen s)%nat | Done false _ _ => False | _ => True end.
Proof.
  induction k as [|k IH]; intros acc s; cbn [star]; [exact I|].
  pose proof (wf_post b s) as Hb. destruct (with_frame (r b) s) as [[|] v s1|x s1|]; cbn [bindr]; try exact I.
  - cbn in Hb. specialize (IH (v :: acc) s1). destruct (star r k b (v :: acc) s1) as [[|] v2 s2|x s2|]; auto. lia.
  - cbn in Hb. lia.
Qed.

Lemma body_post fuel e s : post e s (body g action_sem pred_sem r fuel e s).
Proof.
  destruct e; cbn [body].
  - pose proof (Hr e s) as H. destruct (r e s) as [[|] v s1|x s1|]; cbn [bindr]; try exact I; [|exact H].
    destruct (action_sem _ _ _); cbn in *; auto.
  - destruct (pred_sem _ _) as [b e]; destruct b, e; cbn; auto.
  - destruct (pred_sem _ _) as [b e]; destruct b, e; cbn; auto.
  - pose proof (wf_post e s) as H. destruct (with_frame (r e) s) as [[|] v s1|x s1|]; cbn [bindr]; try exact I; cbn; auto.
  - pose proof (wf_post e s) as H. destruct (with_frame (r e) s) as [[|] v s1|x s1|]; cbn [bindr negb]; try exact I; cbn; auto.
  - destruct (inp s) as [|c i] eqn:E; [reflexivity|]. cbn. rewrite ilen_advance. unfold ilen. rewrite E. cbn. split; [lia|intros; lia].
  - destruct (inp s) as [|c0 i] eqn:E; [reflexivity|]. destruct (class_match _ _); [|reflexivity].
    cbn. rewrite ilen_advance. unfold ilen. rewrite E. cbn. split; [lia|intros; lia].
  - pose proof (lit_go_spec s0 (inp s) s) as H. destruct (lit_go s0 (inp s) s) as [ok s1]. destruct ok; cbn.
    + split; [lia|]. intros E. destruct s0; [reflexivity|cbn in H; lia].
    + unfold ilen. rewrite H. reflexivity.
  - apply choice_post.
  - pose proof (seq_post es (inp s) [] s (le_n _)) as H. destruct (seq r es (inp s) [] s) as [[|] v s1|x s1|]; try exact I; cbn.
    + exact H.
    + unfold ilen. rewrite H. reflexivity.
  - pose proof (wf_post e s) as H. destruct (with_frame (r e) s) as [[|] v s1|x s1|]; cbn [bindr]; try exact I; exact H.
  - destruct (find_rule g name) as [r0|] eqn:Ef; [|reflexivity].
    pose proof (wf_post (rexpr r0) s) as H. destruct (with_frame (r (rexpr r0)) s) as [[|] v s1|x s1|]; try exact I; cbn in *; auto.
    destruct H as [H1 H2]. split; [exact H1|]. intros E. apply (Hnt name r0 Ef). apply H2. exact E.
  - pose proof (star_post fuel e [] s) as H. destruct (star r fuel e [] s) as [[|] v s1|x s1|]; try exact I; [|contradiction]. cbn. auto.
  - pose proof (wf_post e s) as H. destruct (with_frame (r e) s) as [[|] v s1|x s1|]; cbn [bindr]; try exact I; [|exact H].
    cbn in H. destruct H as [H1 H2]. pose proof (star_post fuel e [v] s1) as Hs.
    destruct (star r fuel e [v] s1) as [[|] v2 s2|x s2|]; try exact I; [|contradiction].
    cbn. split; [lia|]. intros E. apply H2. lia.
  - pose proof (wf_post e s) as H. destruct (with_frame (r e) s) as [[|] v s1|x s1|]; cbn [bindr]; try exact I; cbn in *; [destruct H; auto|auto].
    split; [lia|auto].
Qed.

Lemma step_post fuel e s : post e s (step g mx action_sem pred_sem r fuel e s).
Proof.
  unfold step, tick. destruct mx as [m|]; cbn; [destruct (N.ltb _ _); [exact I|]|];
    apply (body_post fuel e {| inp := inp s; cnt := N.succ (cnt s); nerr := nerr s; fr := fr s |}).
Qed.
End R.

Lemma pe_post fuel : forall e s, post e s (pe g mx action_sem pred_sem fuel e s).
Proof. induction fuel as [|f IH]; intros e s; cbn [pe]; [exact I|]. apply step_post. exact IH. Qed.
End Dyn.
