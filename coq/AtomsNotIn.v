From Coq Require Import List ZArith String Ascii Bool NArith Lia.
Import ListNotations.
From Bexpr Require Import Base Ast Unicode Peg Typing Actions GoGrammar Sem Term Lex Lex2 Lex3 Calc Calc2 Skel Top Atoms StrLit AtomsEq Spell Coll AtomsIn Values Sels AtomsOp.
Open Scope string_scope.

(* "lit" not in sel  — with  sel not contains "lit"  (AtomsOp) the negated pair of C04 at grammar level *)
Record ninatom := {
  n_lit : qlit; n_lay : oplay; n_first : ident; n_rest : list ident;
  n_ok1 : ident_ok n_first; n_ok2 : Forall ident_ok n_rest }.
Definition n_sel (a : ninatom) : selector := {| stype := SelBexpr; spath := ident_str (n_first a) :: map ident_str (n_rest a) |}.
Definition n_exp (a : ninatom) : expr := EMatch (n_sel a) OpNotIn (Some (l_lit (n_lit a))).
Definition n_selcells (a : ninatom) (k : list cell) : list cell := fst (n_first a) :: app (snd (n_first a)) (dotted dotc (n_rest a) k).
Definition n_optext (l : oplay) (rest : list cell) : list cell :=
  o_x1 l :: app (o_a1 l) (app K_not (o_x2 l :: app (o_a2 l) (app K_in (o_x3 l :: app (o_a3 l) rest)))).
Definition n_txtK (a : ninatom) (k : list cell) : list cell := l_cells (n_lit a) (n_optext (n_lay a) (n_selcells a k)).
Definition n_txt (a : ninatom) : list cell := n_txtK a [].

Lemma n_txt_app a k : app (n_txt a) k = n_txtK a k.
Proof.
  unfold n_txt, n_txtK, n_optext, n_selcells, l_cells. repeat (cbn [app]; rewrite <- ?app_assoc).
  rewrite dotted_app. reflexivity.
Qed.

Lemma n_parse a k : astop k -> spec (PRef "MatchExpression") (app (n_txt a) k) (VExpr (n_exp a)) k.
Proof.
  intros Hk. rewrite n_txt_app. unfold n_txtK.
  set (l := n_lay a). set (K1 := n_optext l (n_selcells a k)).
  assert (Hself : fspecj (PRef "Selector") (l_cells (n_lit a) K1)).
  { unfold l_cells. cbn [app].
    exact (selector_fails_on_quote (l_q (n_lit a)) (l_x (n_lit a)) _ (l_hq (n_lit a)) (l_hx (n_lit a)) (Forall_inv (l_body (n_lit a)))). }
  eapply ref_ok; [reflexivity|]. cbn [rexpr]. apply spec_j. apply choice_ok.
  apply specc_next.
  { eapply fref; [reflexivity|]. cbn [rexpr]. apply faction. apply fseq. apply fseqs_here. apply flabeled. exact Hself. }
  apply specc_next.
  { eapply fref; [reflexivity|]. cbn [rexpr]. apply faction. apply fseq. apply fseqs_here. apply flabeled. exact Hself. }
  apply specc_here. apply spec_j. eapply ref_ok; [reflexivity|]. cbn [rexpr]. apply spec_j. apply choice_ok. apply specc_here.
  eapply action_ok.
  - apply seq_ok.
    eapply seqs_cons; [apply lab_ok; apply (l_value (n_lit a) K1)|].
    eapply seqs_cons.
    + apply lab_ok. apply choice_ok.
      apply specc_next.
      { eapply fref; [reflexivity|]. cbn [rexpr]. apply faction. apply fseq. unfold K1, n_optext.
        apply kw_fails; [exact (o_h1 l)| exact (o_h1' l)| reflexivity| cbn; discriminate]. }
      apply specc_here. apply spec_j. eapply ref_ok; [reflexivity|]. cbn [rexpr]. eapply action_ok with (v' := VMOp OpNotIn).
      { apply seq_ok. unfold K1, n_optext.
        eapply seqs_cons; [apply (ws_plus_ok (o_x1 l) (o_a1 l) _ (o_h1 l) (o_h1' l)); reflexivity|].
        eapply seqs_cons; [apply (lit_ok [110; 111; 116]%Z K_not _ eq_refl)|].
        eapply seqs_cons; [apply (ws_plus_ok (o_x2 l) (o_a2 l) _ (o_h2 l) (o_h2' l)); reflexivity|].
        eapply seqs_cons; [apply (lit_ok [105; 110]%Z K_in _ eq_refl)|].
        eapply seqs_cons; [apply (ws_plus_ok (o_x3 l) (o_a3 l) _ (o_h3 l) (o_h3' l)); apply letter_free; exact (proj1 (n_ok1 a))|].
        apply seqs_nil. }
      intros G. reflexivity.
    + eapply seqs_cons; [apply lab_ok; apply (selector_spec dotc (n_first a) (n_rest a) k eq_refl (astop_sel_stop k Hk) (n_ok1 a) (n_ok2 a))| apply seqs_nil].
  - intros G. reflexivity.
Qed.

Lemma n_not_paren a k : head_not 40 (app (n_txt a) k).
Proof. rewrite n_txt_app. cbn. rewrite (l_hq (n_lit a)). discriminate. Qed.
Lemma n_head a k : ws_free (app (n_txt a) k).
Proof. rewrite n_txt_app. cbn. rewrite (l_hq (n_lit a)). reflexivity. Qed.
Lemma n_not_not a k : fspecj not_alt1 (app (n_txt a) k).
Proof.
  rewrite n_txt_app. apply faction. apply fseq. apply fseqs_here.
  refine (fails_f (head_not 110) _ _ (fails_lit 110 [111; 116]%Z) _). cbn. rewrite (l_hq (n_lit a)). discriminate.
Qed.

(* C04 at grammar level: the negated spellings build the same tree too *)
Corollary c04_not_in_not_contains_same_tree (a : ninatom) (b : opatom) :
  p_op b = VNotContains -> l_lit (n_lit a) = v_lit (p_lit b) -> n_sel a = p_sel b -> n_exp a = p_exp b.
Proof. intros H0 H1 H2. unfold n_exp, p_exp. rewrite H0, H1, H2. reflexivity. Qed.

Definition atom5 := (atom4 + ninatom)%type.
Definition atxt5 (a : atom5) : list cell := match a with inl a => atxt4 a | inr a => n_txt a end.
Definition aexp5 (a : atom5) : expr := match a with inl a => aexp4 a | inr a => n_exp a end.

(* C16, closed: boolean skeleton + quantifiers + every match operator of the language, literals double-quoted *)
Theorem c16_full_parse5 input e t w0 w1 :
  rOr atom5 atxt5 aexp5 chdr h_txt h_op h_sel h_bind e t -> Forall is_ws w0 -> Forall is_ws w1 ->
  utf8_cells input = app w0 (app t w1) -> all_valid (utf8_cells input) ->
  exists f0, forall f, (f0 <= f)%nat -> exists n, parse go_grammar None action_sem pred_sem f input = Accepted (VExpr e) n.
Proof.
  apply (c16_parse_round_trip atom5 atxt5 aexp5).
  - intros [[[[a|a]|a]|a]|a] k; [apply atom_parse| apply e_parse| apply i_parse| apply p_parse| apply n_parse].
  - intros [[[[a|a]|a]|a]|a] k; [apply atom_not_paren| apply e_not_paren| apply i_not_paren| apply p_not_paren| apply n_not_paren].
  - intros [[[[a|a]|a]|a]|a] k; [apply atom_not_not| apply e_not_not| apply i_not_not| apply p_not_not| apply n_not_not].
  - intros [[[[a|a]|a]|a]|a] k; [apply atom_head| apply e_head| apply i_head| apply p_head| apply n_head].
  - apply hdr_parse_c.
  - apply hdr_and_fails_c.
  - apply hdr_head_c.
Qed.
Print Assumptions c16_full_parse5.
