(* The decimal spelling of a list position (fmt.Sprintf("%d", i), modelled by Eval.dec_nat) is read back by the lookup's
   weak ParseInt as that position: the alias path S.<i> a quantifier builds for the i-th element denotes the i-th element. *)
From Coq Require Import List ZArith String Ascii Bool NArith Lia ZifyNat.
Import ListNotations.
From Bexpr Require Import Base Strconv Ast Univ Eval C02.
Open Scope string_scope.
Ltac Zify.zify_post_hook ::= Z.div_mod_to_equations.

Fixpoint digs (fuel n : nat) (acc : list Z) : list Z :=
  match fuel with O => acc | S f =>
    let d := Z.of_nat (n mod 10) in
    if Nat.ltb n 10 then d :: acc else digs f (n / 10) (d :: acc) end.

Lemma ascii_digit m : (m < 10)%nat -> ascii_of_nat (48 + m) = digit_char (Z.of_nat m).
Proof.
  intros H. unfold digit_char, z2b, ascii_of_nat. f_equal. lia.
Qed.

Lemma show_digs fuel : forall n acc, show_nat fuel n (dstr acc) = dstr (digs fuel n acc).
Proof.
  induction fuel as [|f IH]; intros n acc; [reflexivity|]. cbn [show_nat digs].
  assert (Hm : (n mod 10 < 10)%nat) by (apply Nat.mod_upper_bound; lia).
  rewrite (ascii_digit (n mod 10) Hm).
  destruct (Nat.ltb n 10); [reflexivity|]. cbn [append]. apply (IH (n / 10)%nat (Z.of_nat (n mod 10) :: acc)).
Qed.

Lemma dval_app l : forall a x, dval (l ++ a)%list x = dval a (dval l x).
Proof. induction l as [|d r IH]; intros a x; [reflexivity|]. cbn [app dval]. apply IH. Qed.

Lemma digs_spec fuel : forall n acc, (0 < fuel)%nat -> (Z.of_nat n < 10 ^ Z.of_nat fuel)%Z ->
  exists l, digs fuel n acc = (l ++ acc)%list /\ Forall is_digit l /\ dval l 0 = Z.of_nat n /\ l <> [] /\ ((1 <= n)%nat -> hd 0%Z l <> 0%Z).
Proof.
  induction fuel as [|f IH]; intros n acc Hf Hn; [lia|]. cbn [digs].
  destruct (Nat.ltb_spec n 10) as [Hlt|Hge].
  - exists [Z.of_nat (n mod 10)]. repeat split.
    + constructor; [unfold is_digit; lia|constructor].
    + cbn [dval]. lia.
    + discriminate.
    + intros H1. cbn [hd]. lia.
  - destruct f as [|f'].
    + exfalso. change (10 ^ Z.of_nat 1)%Z with 10%Z in Hn. lia.
    + assert (Hq : (Z.of_nat (n / 10) < 10 ^ Z.of_nat (S f'))%Z).
      { replace (Z.of_nat (S (S f'))) with (Z.of_nat (S f') + 1)%Z in Hn by lia. rewrite Z.pow_add_r in Hn by lia.
        change (10 ^ 1)%Z with 10%Z in Hn. assert (0 < 10 ^ Z.of_nat (S f'))%Z by (apply Z.pow_pos_nonneg; lia). nia. }
      destruct (IH (n / 10)%nat (Z.of_nat (n mod 10) :: acc) ltac:(lia) Hq) as [l [E [Hd [Hv [Hne Hh]]]]].
      exists (l ++ [Z.of_nat (n mod 10)])%list. repeat split.
      * rewrite E, <- app_assoc. reflexivity.
      * apply Forall_app. split; [exact Hd|]. constructor; [unfold is_digit; lia|constructor].
      * rewrite dval_app. cbn [dval]. rewrite Hv. lia.
      * destruct l; [contradiction|discriminate].
      * intros _. destruct l as [|d r]; [contradiction|]. cbn [app hd]. cbn [hd] in Hh. apply Hh. lia.
Qed.

Theorem dec_nat_round_trip n : (Z.of_nat n < 2 ^ 63)%Z -> parse_int (dec_nat n) 0 64 = POk (Z.of_nat n).
Proof.
  intros Hn. destruct n as [|m]; [vm_compute; reflexivity|].
  unfold dec_nat. change "" with (dstr []). rewrite show_digs.
  assert (H20 : (Z.of_nat (S m) < 10 ^ Z.of_nat 20)%Z) by (change (10 ^ Z.of_nat 20)%Z with 100000000000000000000%Z; lia).
  destruct (digs_spec 20 (S m) [] ltac:(lia) H20) as [l [E [Hd [Hv [Hne Hh]]]]].
  rewrite E, app_nil_r.
  assert (Hc : canonical l).
  { split; [exact Hd|]. destruct l as [|d r]; [contradiction|]. destruct r; [exact I|]. apply Hh. lia. }
  rewrite <- Hv. apply parse_int_dec_pos; [exact Hc|]. rewrite Hv. exact Hn.
Qed.

Lemma show_nat_nonempty f : forall k a, a <> "" -> show_nat f k a <> "".
Proof. induction f as [|f IH]; intros k a Ha; cbn [show_nat]; [exact Ha|]. destruct (Nat.ltb k 10); [discriminate|]. apply IH. discriminate. Qed.
Lemma show_nat_S f k a : show_nat (S f) k a <> "".
Proof. cbn [show_nat]. destruct (Nat.ltb k 10); [discriminate|]. apply show_nat_nonempty. discriminate. Qed.
Lemma dec_nat_nonempty n : dec_nat n <> "".
Proof. unfold dec_nat. exact (show_nat_S 19 n ""). Qed.

(* the alias path of the i-th element of a list: the lookup step on the part dec_nat i yields the i-th element *)
Theorem index_part_denotes_element cfg t nl l i x : kind_of_type t = KSlice -> (Z.of_nat i < 2 ^ 63)%Z -> nth_error l i = Some x ->
  get_step cfg (dec_nat i) (Some (t, VSlice nl l)) = Ok (Some (elem_type t, x)).
Proof.
  intros Hk Hi Hx. unfold get_step.
  assert (Hs : strip_ptrs 8 (strip_iface (Some (t, VSlice nl l))) = Some (t, VSlice nl l)).
  { unfold strip_iface. cbn [kind_of]. rewrite Hk. cbn [strip_ptrs kind_of]. rewrite Hk. reflexivity. }
  rewrite Hs. unfold weak_str.
  replace (String.eqb (dec_nat i) "") with false by (symmetry; apply String.eqb_neq; apply dec_nat_nonempty).
  rewrite (dec_nat_round_trip i Hi).
  assert (Hlen : (i < List.length l)%nat) by (apply nth_error_Some; congruence).
  replace ((Z.of_nat i <? 0)%Z || (Z.of_nat (List.length l) <=? Z.of_nat i)%Z) with false
    by (symmetry; apply orb_false_intro; [apply Z.ltb_ge; lia|apply Z.leb_gt; lia]).
  rewrite Nat2Z.id, Hx. reflexivity.
Qed.
Print Assumptions dec_nat_round_trip.
Print Assumptions index_part_denotes_element.
