(* The edge cases of a quantifier's collection, at full generality over the body: what is not a collection is an error,
   a map is iterable only when its key type is exactly string, an absent key and an empty collection give the
   neutral element (any = false, all = true) without looking at the body. *)
From Coq Require Import List ZArith String Bool.
Import ListNotations.
From Bexpr Require Import Base Strconv Ast Univ Eval.
Open Scope string_scope.

Theorem c06_non_string_keyed_map_is_error re cfg ls op s b inner d t nl kvs :
  get_value cfg ls (spath s) d = Ok (GVal (Some (t, VMap nl kvs))) -> kind_of_type t = KMap -> type_eqb (key_type t) TString = false ->
  eval re cfg ls (EColl op s b inner) d = Out false (Some EKeyType).
Proof. intros Hg Hk Hkey. cbn [eval]. rewrite Hg. cbn [kind_of]. rewrite Hk, Hkey. reflexivity. Qed.

Theorem c06_not_a_collection_is_error re cfg ls op s b inner d v :
  get_value cfg ls (spath s) d = Ok (GVal v) -> kind_of v <> KMap -> kind_of v <> KSlice -> kind_of v <> KArray ->
  eval re cfg ls (EColl op s b inner) d = Out false (Some ENotIterable).
Proof.
  intros Hg H1 H2 H3. cbn [eval]. rewrite Hg. destruct (kind_of v); try reflexivity; contradiction.
Qed.

Theorem c06_absent_collection re cfg ls op s b inner d :
  get_value cfg ls (spath s) d = Ok GAbsent -> eval re cfg ls (EColl op s b inner) d = Out (coll_default op) None.
Proof. intros Hg. cbn [eval]. rewrite Hg. reflexivity. Qed.

Theorem c06_lookup_error_is_the_outcome re cfg ls op s b inner d e :
  get_value cfg ls (spath s) d = Err e -> eval re cfg ls (EColl op s b inner) d = Out false (Some e).
Proof. intros Hg. cbn [eval]. rewrite Hg. reflexivity. Qed.

Theorem c06_empty_list re cfg ls op s b inner d t nl :
  get_value cfg ls (spath s) d = Ok (GVal (Some (t, VSlice nl []))) -> kind_of_type t = KSlice ->
  eval re cfg ls (EColl op s b inner) d = Out (coll_default op) None.
Proof. intros Hg Hk. cbn [eval]. rewrite Hg. cbn [kind_of]. rewrite Hk. reflexivity. Qed.

Theorem c06_empty_map re cfg ls op s b inner d t nl :
  get_value cfg ls (spath s) d = Ok (GVal (Some (t, VMap nl []))) -> kind_of_type t = KMap -> type_eqb (key_type t) TString = true ->
  eval re cfg ls (EColl op s b inner) d = Out (coll_default op) None.
Proof. intros Hg Hk Hkey. cbn [eval]. rewrite Hg. cbn [kind_of]. rewrite Hk, Hkey. reflexivity. Qed.

(* an index-and-value binding that uses one name twice is an error as soon as there is an element to bind - and only then *)
Theorem c06_same_name_needs_an_element ev op b selpath is_map i :
  coll_loop ev op b selpath is_map i [] = Out (coll_default op) None /\
  (same_name b = true -> forall k rest, coll_loop ev op b selpath is_map i (k :: rest) = Out false (Some ESameName)).
Proof. split; [reflexivity|]. intros H k rest. cbn [coll_loop]. rewrite H. reflexivity. Qed.

Print Assumptions c06_non_string_keyed_map_is_error.
Print Assumptions c06_not_a_collection_is_error.
Print Assumptions c06_same_name_needs_an_element.
