From Coq Require Import List ZArith String Ascii Bool NArith Lia Permutation Sorted.
Import ListNotations.
From Bexpr Require Import Base Strconv Ast Univ Eval Props KeyEq.
Open Scope string_scope.

Definition hidden (tn : string) (f : fdecl) : bool :=
  match f with FD _ exported tags _ =>
    negb exported || (negb (String.eqb (tag_get tags tn) "") && String.eqb (before_comma (tag_get tags tn)) "-") end.
Definition ftype (f : fdecl) : gtype := match f with FD _ _ _ t => t end.

(* string-keyed maps *)
Definition skey (kv : gval * gval) : string := match fst kv with VStr k => k | _ => "" end.
Definition str_keyed (kvs : list (gval * gval)) : Prop := Forall (fun kv => exists k, fst kv = VStr k) kvs.

Section V.
Variable tn : string.   (* effective tag name used by the lookup *)

Inductive veq : gtype -> gval -> gval -> Prop :=
| veq_same t v : veq t v v
| veq_ptr t a b : veq (elem_type t) a b -> veq t (VPtr a) (VPtr b)
| veq_iface t dyn a b : veq dyn a b -> veq t (VIface dyn a) (VIface dyn b)
| veq_slice t n la lb : Forall2 (veq (elem_type t)) la lb -> veq t (VSlice n la) (VSlice n lb)
| veq_array t la lb : Forall2 (veq (elem_type t)) la lb -> veq t (VArray la) (VArray lb)
| veq_map t n ka kb : Forall2 (fun x y => fst x = fst y /\ veq (elem_type t) (snd x) (snd y)) ka kb -> veq t (VMap n ka) (VMap n kb)
| veq_struct t name fs va vb : under t = TStruct name fs -> veq_fields fs va vb -> veq t (VStruct va) (VStruct vb)
| veq_smap t n ka kb' kb :                      (* the same string-keyed map presented in another order *)
    kind_of_type (key_type t) = KString -> str_keyed ka -> NoDup (map skey ka) -> Permutation ka kb' ->
    Forall2 (fun x y => fst x = fst y /\ veq (elem_type t) (snd x) (snd y)) kb' kb -> veq t (VMap n ka) (VMap n kb)
| veq_pmap t n ka kb' kb :                      (* a map whose key type is not `string` (it cannot be quantified over) in another order *)
    type_eqb (key_type t) TString = false -> keys_distinct (key_type t) ka -> Permutation ka kb' ->
    Forall2 (fun x y => fst x = fst y /\ veq (elem_type t) (snd x) (snd y)) kb' kb -> veq t (VMap n ka) (VMap n kb)
with veq_fields : list fdecl -> list gval -> list gval -> Prop :=
| vf_nil fs : veq_fields fs [] []
| vf_cons f fs a b va vb :
    (hidden tn f = false -> veq (ftype f) a b) -> veq_fields fs va vb -> veq_fields (f :: fs) (a :: va) (b :: vb)
| vf_short a b va vb : veq_fields [] (a :: va) (b :: vb).

Definition rveq (x y : rv) : Prop :=
  match x, y with
  | None, None => True
  | Some (t1, v1), Some (t2, v2) => t1 = t2 /\ veq t1 v1 v2
  | _, _ => False
  end.

Lemma rveq_refl x : rveq x x.
Proof. destruct x as [[t v]|]; cbn; auto using veq_same. Qed.

Lemma rveq_kind x y : rveq x y -> kind_of x = kind_of y.
Proof. destruct x as [[t1 v1]|], y as [[t2 v2]|]; cbn; try tauto. intros [-> _]; reflexivity. Qed.

Lemma elem_type_ptr t t' : under t = TPtr t' -> elem_type t = t'.
Proof. unfold elem_type. intros ->. reflexivity. Qed.

Lemma r_elem_veq x y : rveq x y -> rveq (r_elem x) (r_elem y).
Proof.
  destruct x as [[t1 v1]|], y as [[t2 v2]|]; cbn; try tauto. intros [<- H].
  inversion H; subst; try apply rveq_refl; cbn.
  - destruct (under t1) eqn:E; cbn; auto. split; auto. rewrite <- (elem_type_ptr _ _ E). assumption.
  - split; auto.
Qed.

Lemma r_indirect_veq x y : rveq x y -> rveq (r_indirect x) (r_indirect y).
Proof. intros H. unfold r_indirect. rewrite <- (rveq_kind _ _ H). destruct (kind_of x); auto using r_elem_veq. Qed.

Lemma strip_iface_veq x y : rveq x y -> rveq (strip_iface x) (strip_iface y).
Proof. intros H. unfold strip_iface. rewrite <- (rveq_kind _ _ H). destruct (kind_of x); auto using r_elem_veq. Qed.

Lemma strip_ptrs_veq n : forall x y, rveq x y -> rveq (strip_ptrs n x) (strip_ptrs n y).
Proof.
  induction n as [|n IH]; intros x y H; cbn [strip_ptrs]; auto.
  rewrite <- (rveq_kind _ _ H). destruct (kind_of x); auto using r_elem_veq.
Qed.

Lemma r_interface_veq x y : rveq x y -> rveq (r_interface x) (r_interface y).
Proof.
  destruct x as [[t1 v1]|], y as [[t2 v2]|]; cbn; try tauto. intros [<- H].
  inversion H; subst; try apply rveq_refl; cbn; try (split; [reflexivity|]; eauto using veq).
Qed.

(* ---- struct lookup ---- *)
Definition fres_rel (a b : fres) : Prop :=
  match a, b with
  | FFound t x, FFound t' y => t = t' /\ veq t x y
  | FNotFound, FNotFound | FIgnored, FIgnored | FBadTag, FBadTag => True
  | _, _ => False end.

Definition cand_rel (ign : bool) (c1 c2 : option (gtype * gval)) : Prop :=
  match c1, c2 with
  | None, None => True
  | Some (t1, v1), Some (t2, v2) => ign = true \/ (t1 = t2 /\ veq t1 v1 v2)
  | _, _ => False end.

Lemma get_struct_veq part fs : forall va vb c1 c2 ign, veq_fields fs va vb -> cand_rel ign c1 c2 ->
  fres_rel (get_struct tn part fs va c1 ign) (get_struct tn part fs vb c2 ign).
Proof.
  assert (Hfin : forall ign c1 c2, cand_rel ign c1 c2 ->
    fres_rel (match c1 with None => FNotFound | Some (t, v) => if ign then FIgnored else FFound t v end)
             (match c2 with None => FNotFound | Some (t, v) => if ign then FIgnored else FFound t v end)).
  { intros ign [[t1 v1]|] [[t2 v2]|]; cbn; try tauto. destruct ign; cbn; auto. intros [H|H]; [discriminate|exact H]. }
  induction fs as [|f fs IH]; intros va vb c1 c2 ign Hf Hc.
  - cbn [get_struct]. inversion Hf; subst; apply Hfin; assumption.
  - inversion Hf as [ | f' fs' a b va' vb' Hhid Hrest | ]; subst.
    + cbn [get_struct]. destruct f. apply Hfin; assumption.
    + destruct f as [name exported tags ft]. cbn [get_struct].
      cbn [hidden ftype] in Hhid.
      destruct exported; cbn [negb orb] in *.
      2:{ apply IH; assumption. }
      destruct (String.eqb (tag_get tags tn) "") eqn:Et; cbn [negb andb] in Hhid.
      * destruct (String.eqb name part); apply IH; auto. cbn. right. split; auto.
      * destruct (contains_byte "|" (before_comma (tag_get tags tn))); [exact I|].
        destruct (String.eqb (before_comma (tag_get tags tn)) "-") eqn:Ed.
        -- destruct (String.eqb name part); apply IH; auto. cbn. left. reflexivity.
        -- destruct (String.eqb (before_comma (tag_get tags tn)) part); [cbn; split; auto|]. apply IH; auto.
Qed.

(* ---- map and slice lookup ---- *)
Lemma map_find_veq t kt k ka kb :
  Forall2 (fun x y => fst x = fst y /\ veq t (snd x) (snd y)) ka kb ->
  match map_find kt k ka, map_find kt k kb with
  | Some a, Some b => veq t a b | None, None => True | _, _ => False end.
Proof.
  induction 1 as [|[k1 v1] [k2 v2] ka kb [Hk Hv] _ IH]; cbn; auto.
  cbn in Hk, Hv. subst k2. destruct (map_key_eqb kt k1 k); auto.
Qed.


Lemma pmap_find t kt k ka kb' kb : keys_distinct kt ka -> Permutation ka kb' ->
  Forall2 (fun x y => fst x = fst y /\ veq t (snd x) (snd y)) kb' kb ->
  match map_find kt k ka, map_find kt k kb with
  | Some a, Some b => veq t a b | None, None => True | _, _ => False end.
Proof. intros Hd Hp H2. rewrite (map_find_perm kt k ka kb' Hd Hp). exact (map_find_veq t kt k kb' kb H2). Qed.

(* ---- string-keyed maps up to permutation ---- *)
Lemma map_find_str kvs k : str_keyed kvs ->
  map_find TString (VStr k) kvs = match find (fun kv => String.eqb (skey kv) k) kvs with Some kv => Some (snd kv) | None => None end.
Proof.
  induction 1 as [|[k' v'] kvs [s Hs] _ IH]; cbn [map_find find]; [reflexivity|]. cbn in Hs. subst k'.
  cbn [map_key_eqb key_eqb skey fst snd]. destruct (String.eqb s k); [reflexivity|exact IH].
Qed.

Lemma find_perm_nodup k (ka kb : list (gval * gval)) : NoDup (map skey ka) -> Permutation ka kb ->
  find (fun kv => String.eqb (skey kv) k) ka = find (fun kv => String.eqb (skey kv) k) kb.
Proof.
  intros Hn Hp. induction Hp as [|x l l' Hp IH|x y l|l l' l'' Hp1 IH1 Hp2 IH2]; cbn [find map] in *.
  - reflexivity.
  - inversion Hn; subst. rewrite IH by assumption. reflexivity.
  - inversion Hn as [|? ? Hx Hn']; subst. inversion Hn' as [|? ? Hy Hn'']; subst.
    destruct (String.eqb (skey y) k) eqn:Ey, (String.eqb (skey x) k) eqn:Ex; try reflexivity.
    apply String.eqb_eq in Ey, Ex. exfalso. apply Hx. left. congruence.
  - rewrite IH1 by assumption. apply IH2. eapply Permutation_NoDup; [apply Permutation_map; exact Hp1|exact Hn].
Qed.

Lemma find_forall2 t k (ka kb : list (gval * gval)) :
  Forall2 (fun x y => fst x = fst y /\ veq t (snd x) (snd y)) ka kb ->
  match find (fun kv => String.eqb (skey kv) k) ka, find (fun kv => String.eqb (skey kv) k) kb with
  | Some a, Some b => veq t (snd a) (snd b) | None, None => True | _, _ => False end.
Proof.
  induction 1 as [|[k1 v1] [k2 v2] ka kb [Hk Hv] _ IH]; cbn [find]; auto. cbn in Hk, Hv. subst k2.
  unfold skey at 1 3. cbn [fst]. destruct (String.eqb _ k); [exact Hv|exact IH].
Qed.

Lemma str_keyed_perm ka kb : str_keyed ka -> Permutation ka kb -> str_keyed kb.
Proof. unfold str_keyed. intros H Hp. eapply Permutation_Forall; eauto. Qed.
Lemma str_keyed_forall2 t (ka kb : list (gval * gval)) : str_keyed ka ->
  Forall2 (fun x y => fst x = fst y /\ veq t (snd x) (snd y)) ka kb -> str_keyed kb.
Proof. unfold str_keyed. intros H H2. induction H2 as [|x y ka kb [Hk _] _ IH]; [constructor|]. inversion H; subst. constructor; [rewrite <- Hk; assumption|auto]. Qed.

Lemma smap_find t k ka kb' kb : str_keyed ka -> NoDup (map skey ka) -> Permutation ka kb' ->
  Forall2 (fun x y => fst x = fst y /\ veq t (snd x) (snd y)) kb' kb ->
  match map_find TString (VStr k) ka, map_find TString (VStr k) kb with
  | Some a, Some b => veq t a b | None, None => True | _, _ => False end.
Proof.
  intros Hs Hn Hp H2.
  rewrite (map_find_str ka k Hs), (map_find_str kb k (str_keyed_forall2 t kb' kb (str_keyed_perm ka kb' Hs Hp) H2)).
  rewrite (find_perm_nodup k ka kb' Hn Hp).
  pose proof (find_forall2 t k kb' kb H2) as Hf.
  destruct (find _ kb'), (find _ kb); auto.
Qed.

Lemma map_find_kt_irrel kt kvs p : str_keyed kvs -> map_find kt (VStr p) kvs = map_find TString (VStr p) kvs.
Proof. induction 1 as [|[k' v'] kvs [s0 Hs] _ IH]; cbn [map_find]; [reflexivity|]. cbn in Hs. subst k'. cbn [map_key_eqb key_eqb]. rewrite IH. reflexivity. Qed.
Lemma coerce_key_string part kt : kind_of_type kt = KString -> coerce_key part kt = Ok (VStr part).
Proof. intros H. unfold coerce_key. rewrite H. reflexivity. Qed.

Lemma skeys_forall2 t (ka kb : list (gval * gval)) :
  Forall2 (fun x y => fst x = fst y /\ veq t (snd x) (snd y)) ka kb -> map skey ka = map skey kb.
Proof. induction 1 as [|x y ka kb [Hk _] _ IH]; cbn [map]; [reflexivity|]. rewrite IH. unfold skey. rewrite Hk. reflexivity. Qed.

Lemma Forall2_len {A B} (R : A -> B -> Prop) la lb : Forall2 R la lb -> List.length la = List.length lb.
Proof. induction 1; cbn; congruence. Qed.

Lemma nth_error_veq t la lb n : Forall2 (veq t) la lb ->
  match nth_error la n, nth_error lb n with Some a, Some b => veq t a b | None, None => True | _, _ => False end.
Proof. intros H. revert n. induction H; intros [|n]; cbn; auto. apply IHForall2. Qed.

Definition res_rel {A} (R : A -> A -> Prop) (a b : result A) : Prop :=
  match a, b with Ok x, Ok y => R x y | Err e, Err e' => e = e' | RPanic, RPanic => True | _, _ => False end.

Variable cfg : config.
Hypothesis Htag : (if String.eqb (tagname cfg) "" then "pointer" else tagname cfg) = tn.
Hypothesis Hhook : hook cfg = None.

Lemma get_step_veq part x y : rveq x y -> res_rel rveq (get_step cfg part x) (get_step cfg part y).
Proof.
  intros H. unfold get_step.
  pose proof (strip_ptrs_veq 8 _ _ (strip_iface_veq _ _ H)) as H'.
  destruct (strip_ptrs 8 (strip_iface x)) as [[t1 v1]|], (strip_ptrs 8 (strip_iface y)) as [[t2 v2]|]; cbn in H'; try tauto; [|cbn; auto].
  destruct H' as [<- Hv]. rewrite Htag.
  inversion Hv as [t v | t a b Hab | t dyn a b Hab | t n la lb Hl | t la lb Hl | t n ka kb Hk | t name fs va vb Hu Hf | t n ka kb' kb Hkk Hsk Hnd Hperm Hk2 | t n ka kb' kb Hnk Hkd Hperm Hk2]; subst.
  - (* identical values *)
    match goal with |- res_rel rveq ?a ?a => destruct a as [r| |]; cbn; auto; apply rveq_refl end.
  - cbn; auto.
  - cbn; auto.
  - (* slices *)
    destruct (parse_int _ _ _) as [i|]; cbn; auto.
    rewrite <- (Forall2_len _ _ _ Hl). destruct (_ || _); cbn; auto.
    pose proof (nth_error_veq _ _ _ (Z.to_nat i) Hl) as Hn.
    destruct (nth_error la _), (nth_error lb _); cbn; try tauto; try (split; auto).
  - destruct (parse_int _ _ _) as [i|]; cbn; auto.
    rewrite <- (Forall2_len _ _ _ Hl). destruct (_ || _); cbn; auto.
    pose proof (nth_error_veq _ _ _ (Z.to_nat i) Hl) as Hn.
    destruct (nth_error la _), (nth_error lb _); cbn; try tauto; try (split; auto).
  - (* maps *)
    destruct (coerce_key _ _) as [k| |]; cbn; auto.
    pose proof (map_find_veq _ (key_type t1) k _ _ Hk) as Hm.
    destruct (map_find _ k ka), (map_find _ k kb); cbn; try tauto; try (split; auto).
  - (* structs *)
    rewrite Hu.
    pose proof (get_struct_veq part fs va vb None None false Hf I) as Hs.
    destruct (get_struct tn part fs va None false), (get_struct tn part fs vb None false); cbn in *; try tauto.
  - (* the same string-keyed map in another order *)
    rewrite (coerce_key_string part (key_type t1) Hkk).
    pose proof (str_keyed_forall2 _ kb' kb (str_keyed_perm ka kb' Hsk Hperm) Hk2) as Hskb.
    rewrite (map_find_kt_irrel _ ka part Hsk), (map_find_kt_irrel _ kb part Hskb).
    pose proof (smap_find (elem_type t1) part ka kb' kb Hsk Hnd Hperm Hk2) as Hm.
    destruct (map_find TString (VStr part) ka), (map_find TString (VStr part) kb); cbn; try tauto; try (split; auto).
  - (* a map with another key type in another order *)
    destruct (coerce_key _ _) as [k| |]; cbn; auto.
    pose proof (pmap_find _ (key_type t1) k _ _ _ Hkd Hperm Hk2) as Hm.
    destruct (map_find _ k ka), (map_find _ k kb); cbn; try tauto; try (split; auto).
Qed.

Lemma get_loop_veq parts : forall x y, rveq x y -> res_rel rveq (get_loop cfg parts x) (get_loop cfg parts y).
Proof.
  induction parts as [|p ps IH]; intros x y H; cbn [get_loop]; [exact H|].
  pose proof (get_step_veq p _ _ H) as Hs.
  destruct (get_step cfg p x), (get_step cfg p y); cbn in Hs; try tauto; cbn; auto.
  rewrite Hhook. apply IH; assumption.
Qed.

Lemma get_veq parts x y : rveq x y -> res_rel rveq (get cfg parts x) (get cfg parts y).
Proof.
  intros H. unfold get. destruct parts; [exact H|].
  pose proof (get_loop_veq (s :: parts) _ _ H) as Hl.
  destruct (get_loop cfg (s :: parts) x), (get_loop cfg (s :: parts) y); cbn in Hl; try tauto; cbn; auto.
  apply r_interface_veq; assumption.
Qed.

(* ---------- operators ---------- *)
Lemma eq_fn_veq c l x y : rveq x y -> eq_fn c l x = eq_fn c l y.
Proof.
  destruct x as [[t1 v1]|], y as [[t2 v2]|]; cbn [rveq]; try tauto. intros [<- H].
  inversion H; subst; try reflexivity; destruct c, l; reflexivity.
Qed.

Lemma r_len_veq x y : rveq x y -> r_len x = r_len y.
Proof.
  destruct x as [[t1 v1]|], y as [[t2 v2]|]; cbn [rveq]; try tauto. intros [<- H].
  inversion H as [t v | t a b Hab | t dyn a b Hab | t n la lb Hl | t la lb Hl | t n ka kb Hk | t name fs va vb Hu Hf | t n ka kb' kb Hkk Hsk Hnd Hperm Hk2 | t n ka kb' kb Hnk Hkd Hperm Hk2]; subst; try reflexivity; cbn.
  - rewrite (Forall2_len _ _ _ Hl). reflexivity.
  - rewrite (Forall2_len _ _ _ Hl). reflexivity.
  - rewrite (Forall2_len _ _ _ Hk). reflexivity.
  - rewrite (Permutation_length Hperm), (Forall2_len _ _ _ Hk2). reflexivity.
  - rewrite (Permutation_length Hperm), (Forall2_len _ _ _ Hk2). reflexivity.
Qed.

Lemma bytes_map_veq t la lb : Forall2 (veq t) la lb ->
  map (fun b => match b with VUint z => z2b z | _ => zero end) la = map (fun b => match b with VUint z => z2b z | _ => zero end) lb.
Proof. induction 1 as [|a b la lb Hab _ IH]; cbn; [reflexivity|]. rewrite IH. f_equal. inversion Hab; subst; reflexivity. Qed.

Lemma bytes_of_veq x y : rveq x y -> bytes_of x = bytes_of y.
Proof.
  destruct x as [[t1 v1]|], y as [[t2 v2]|]; cbn [rveq]; try tauto. intros [<- H].
  inversion H as [t v | t a b Hab | t dyn a b Hab | t n la lb Hl | t la lb Hl | t n ka kb Hk | t name fs va vb Hu Hf | t n ka kb' kb Hkk Hsk Hnd Hperm Hk2 | t n ka kb' kb Hnk Hkd Hperm Hk2]; subst; try reflexivity;
    cbn; destruct (kind_of_type t1); try reflexivity.
  destruct (type_eqb _ _); [|reflexivity]. rewrite (bytes_map_veq _ _ _ Hl). reflexivity.
Qed.

Lemma map_some_veq t la lb : Forall2 (veq t) la lb ->
  Forall2 rveq (map (fun x : gval => Some (t, x)) la) (map (fun x : gval => Some (t, x)) lb).
Proof. induction 1; cbn; constructor; cbn; auto. Qed.

Lemma r_elems_veq x y : rveq x y ->
  match r_elems x, r_elems y with Some la, Some lb => Forall2 rveq la lb | None, None => True | _, _ => False end.
Proof.
  destruct x as [[t1 v1]|], y as [[t2 v2]|]; cbn [rveq]; try tauto. intros [<- H].
  assert (Hrefl : forall l : list rv, Forall2 rveq l l) by (induction l; constructor; auto using rveq_refl).
  inversion H as [t v | t a b Hab | t dyn a b Hab | t n la lb Hl | t la lb Hl | t n ka kb Hk | t name fs va vb Hu Hf | t n ka kb' kb Hkk Hsk Hnd Hperm Hk2 | t n ka kb' kb Hnk Hkd Hperm Hk2]; subst; cbn; auto.
  - destruct v2; cbn; auto; try apply Hrefl.
  - apply map_some_veq; assumption.
  - apply map_some_veq; assumption.
Qed.

Section Ops.
Variable re : string -> string -> option bool.
Local Opaque coerce parse_int parse_uint parse_float parse_bool.

Lemma deref_gval_veq : forall v1 t v2, veq t v1 v2 -> rveq (deref_gval t v1) (deref_gval t v2).
Proof.
  induction v1; intros t v2 H;
    inversion H as [t0 v0 | t0 a0 b0 Hab | t0 dyn0 a0 b0 Hab | t0 n0 la lb Hl | t0 la lb Hl | t0 n0 ka kb Hk | t0 name0 fs0 va vb Hu Hf | t0 n0 ka kb' kb Hkk Hsk Hnd Hperm Hk2 | t0 n0 ka kb' kb Hnk Hkd Hperm Hk2]; subst;
    try apply rveq_refl; cbn [deref_gval]; try (cbn; split; [reflexivity|assumption]).
  apply IHv1. assumption.
Qed.
Lemma deref_value_veq x y : rveq x y -> rveq (deref_value x) (deref_value y).
Proof. destruct x as [[t1 v1]|], y as [[t2 v2]|]; cbn [rveq]; try tauto. intros [<- H]. apply deref_gval_veq. exact H. Qed.

Lemma in_typed_veq c l la lb : Forall2 rveq la lb -> in_typed_elems c l la = in_typed_elems c l lb.
Proof.
  induction 1 as [|a b la lb Hab _ IH]; cbn [in_typed_elems]; [reflexivity|].
  pose proof (deref_value_veq _ _ Hab) as Hd.
  destruct (deref_value a) as [[t1 x1]|], (deref_value b) as [[t2 x2]|]; cbn [rveq] in Hd; try tauto; try exact IH.
  rewrite (eq_fn_veq c l (Some (t1, x1)) (Some (t2, x2)) Hd), IH. reflexivity.
Qed.

Lemma in_iface_veq raw la lb : Forall2 rveq la lb -> in_iface_elems raw la = in_iface_elems raw lb.
Proof.
  induction 1 as [|a b la lb Hab _ IH]; cbn [in_iface_elems]; [reflexivity|].
  pose proof (deref_value_veq _ _ (r_elem_veq _ _ Hab)) as He.
  destruct (deref_value (r_elem a)) as [[d1 x1]|], (deref_value (r_elem b)) as [[d2 x2]|]; cbn [rveq] in He; try tauto; try exact IH.
  destruct He as [<- Hx]. rewrite IH.
  destruct (coerce _ raw) as [l|e|]; try reflexivity.
  destruct (sclass_of _); try reflexivity;
    rewrite (eq_fn_veq _ l (Some (d1, x1)) (Some (d1, x2))); try reflexivity; cbn; auto.
Qed.

Lemma do_equal_veq raw x y : rveq x y -> do_equal raw x = do_equal raw y.
Proof.
  intros H. unfold do_equal. rewrite <- (rveq_kind _ _ H).
  destruct (sclass_of (kind_of x)); try reflexivity; destruct raw; try reflexivity;
    destruct (coerce _ _); try reflexivity; rewrite (eq_fn_veq _ _ _ _ H); reflexivity.
Qed.

Lemma do_is_empty_veq x y : rveq x y -> do_is_empty x = do_is_empty y.
Proof. intros H. unfold do_is_empty. rewrite (r_len_veq _ _ H), (rveq_kind _ _ H). reflexivity. Qed.

Lemma do_matches_veq raw x y : rveq x y -> do_matches re raw x = do_matches re raw y.
Proof. intros H. unfold do_matches. rewrite (bytes_of_veq _ _ H). reflexivity. Qed.

Lemma map_find_present t kt k ka kb :
  Forall2 (fun x y => fst x = fst y /\ veq t (snd x) (snd y)) ka kb ->
  match map_find kt k ka with Some _ => true | None => false end = match map_find kt k kb with Some _ => true | None => false end.
Proof. intros H. pose proof (map_find_veq t kt k _ _ H). destruct (map_find kt k ka), (map_find kt k kb); tauto. Qed.

Lemma in_elems_veq raw it la lb : Forall2 rveq la lb -> in_elems raw it la = in_elems raw it lb.
Proof.
  intros H. unfold in_elems.
  destruct (kind_of_type it); try (apply in_iface_veq; assumption);
    (destruct (coerce _ raw); try reflexivity; cbn [sclass_of]; try reflexivity; apply in_typed_veq; assumption).
Qed.

Lemma in_map_veq raw t ka kb : Forall2 (fun x y => fst x = fst y /\ veq (elem_type t) (snd x) (snd y)) ka kb ->
  in_map raw t ka = in_map raw t kb.
Proof.
  intros Hk. unfold in_map. destruct (type_eqb (key_type t) TString).
  - rewrite (map_find_present _ _ _ _ _ Hk). reflexivity.
  - destruct (kind_of_type (key_type t)); try reflexivity; rewrite (map_find_present _ _ _ _ _ Hk); reflexivity.
Qed.

Lemma in_map_smap raw t ka kb' kb :
  kind_of_type (key_type t) = KString -> str_keyed ka -> NoDup (map skey ka) -> Permutation ka kb' ->
  Forall2 (fun x y => fst x = fst y /\ veq (elem_type t) (snd x) (snd y)) kb' kb ->
  in_map raw t ka = in_map raw t kb.
Proof.
  intros Hkk Hsk Hnd Hperm Hk2. unfold in_map.
  pose proof (str_keyed_forall2 _ kb' kb (str_keyed_perm ka kb' Hsk Hperm) Hk2) as Hskb.
  pose proof (smap_find (elem_type t) raw ka kb' kb Hsk Hnd Hperm Hk2) as Hm.
  rewrite Hkk, !(map_find_kt_irrel _ ka raw Hsk), !(map_find_kt_irrel _ kb raw Hskb).
  destruct (map_find TString (VStr raw) ka), (map_find TString (VStr raw) kb); try tauto; destruct (type_eqb _ _); reflexivity.
Qed.

Lemma in_map_pmap raw t ka kb' kb :
  keys_distinct (key_type t) ka -> Permutation ka kb' ->
  Forall2 (fun x y => fst x = fst y /\ veq (elem_type t) (snd x) (snd y)) kb' kb ->
  in_map raw t ka = in_map raw t kb.
Proof.
  intros Hkd Hperm Hk2. unfold in_map.
  assert (Hp : forall k, match map_find (key_type t) k ka, map_find (key_type t) k kb with
                         | Some _, Some _ => True | None, None => True | _, _ => False end).
  { intros k. pose proof (pmap_find (elem_type t) (key_type t) k ka kb' kb Hkd Hperm Hk2) as Hm.
    destruct (map_find _ k ka), (map_find _ k kb); tauto. }
  destruct (type_eqb (key_type t) TString).
  - specialize (Hp (VStr raw)). destruct (map_find _ _ ka), (map_find _ _ kb); try tauto; reflexivity.
  - destruct (kind_of_type (key_type t)); try reflexivity;
      match goal with |- context [map_find _ ?k ka] => specialize (Hp k) end;
      destruct (map_find _ _ ka), (map_find _ _ kb); try tauto; reflexivity.
Qed.

Lemma do_in_veq raw x y : rveq x y -> do_in raw x = do_in raw y.
Proof.
  intros H. unfold do_in. destruct raw as [raw|]; [|reflexivity].
  rewrite <- (rveq_kind _ _ H). destruct (coerce (kind_of x) raw) as [mv|e|]; try reflexivity.
  pose proof (r_elems_veq _ _ H) as He.
  destruct x as [[t1 v1]|], y as [[t2 v2]|]; cbn [rveq] in H; try tauto; try reflexivity.
  destruct H as [<- Hv].
  inversion Hv as [t v | t a b Hab | t dyn a b Hab | t n la lb Hl | t la lb Hl | t n ka kb Hk | t name fs va vb Hu Hf | t n ka kb' kb Hkk Hsk Hnd Hperm Hk2 | t n ka kb' kb Hnk Hkd Hperm Hk2]; subst; try reflexivity;
    cbn [kind_of] in *; destruct (kind_of_type t1); try reflexivity;
    try (destruct (r_elems (Some (t1, _))) as [ea|], (r_elems (Some (t1, _))) as [eb|]; try tauto; try reflexivity; apply in_elems_veq; assumption).
  - apply in_map_veq; assumption.
  - eapply in_map_smap; eassumption.
  - eapply in_map_pmap; eassumption.
Qed.

Lemma res_rel_refl (r : result rv) : res_rel rveq r r.
Proof. destruct r; cbn; auto using rveq_refl. Qed.

Lemma json_narrow_veq x y : rveq x y -> res_rel rveq (json_narrow x) (json_narrow y).
Proof.
  destruct x as [[t1 v1]|], y as [[t2 v2]|]; cbn [rveq]; try tauto; try (intros; exact I).
  intros [<- H].
  inversion H; subst; try apply res_rel_refl; cbn; (split; [reflexivity|]); eauto using veq.
Qed.

Lemma match_op_veq op raw x y : rveq x y -> match_op re op raw x = match_op re op raw y.
Proof.
  intros H. unfold match_op. pose proof (json_narrow_veq _ _ H) as Hj.
  destruct (json_narrow x) as [x'|e|], (json_narrow y) as [y'|e'|]; cbn in Hj; try tauto; subst; try reflexivity.
  pose proof (r_indirect_veq _ _ Hj) as Hi.
  destruct op; rewrite ?(do_equal_veq _ _ _ Hi), ?(do_in_veq _ _ _ Hi), ?(do_is_empty_veq _ _ Hi), ?(do_matches_veq _ _ _ Hi); reflexivity.
Qed.

(* ---------- getValue, eval ---------- *)
Definition lb_rel (a b : lbind) : Prop :=
  match a, b with LAlias p, LAlias q => p = q | LConst x, LConst y => rveq x y | _, _ => False end.
Definition lrel (l1 l2 : locals) : Prop := Forall2 (fun a b => fst a = fst b /\ lb_rel (snd a) (snd b)) l1 l2.

Definition sum_rel (a b : iface + list string) : Prop :=
  match a, b with inl x, inl y => rveq x y | inr p, inr q => p = q | _, _ => False end.

Lemma resolve_locals_veq l1 l2 : lrel l1 l2 -> forall path, res_rel sum_rel (resolve_locals l1 path) (resolve_locals l2 path).
Proof.
  induction 1 as [|[n1 b1] [n2 b2] l1 l2 [Hn Hb] _ IH]; intros path; cbn [resolve_locals]; [reflexivity|].
  cbn in Hn, Hb. subst n2. destruct path as [|h t]; [reflexivity|].
  destruct (String.eqb h n1); [|apply IH].
  destruct b1, b2; cbn in Hb; try tauto.
  - subst. apply IH.
  - destruct t; cbn; auto.
Qed.

Hypothesis Hunk : True.

Lemma not_present_ok_veq path x y : rveq x y -> not_present_ok cfg path x = not_present_ok cfg path y.
Proof.
  intros H. unfold not_present_ok. destruct path as [|p [|q r]]; try reflexivity.
  pose proof (get_veq (removelast (p :: q :: r)) _ _ H) as Hg.
  destruct (get cfg _ x) as [[[t1 v1]|]| |], (get cfg _ y) as [[[t2 v2]|]| |]; cbn in Hg; try tauto; try reflexivity.
  destruct Hg as [<- _]. reflexivity.
Qed.

Definition gv_rel (a b : gv) : Prop := match a, b with GVal x, GVal y => rveq x y | GAbsent, GAbsent => True | _, _ => False end.

Lemma get_value_veq l1 l2 path x y : lrel l1 l2 -> rveq x y ->
  res_rel gv_rel (get_value cfg l1 path x) (get_value cfg l2 path y).
Proof.
  intros Hl H. unfold get_value. pose proof (resolve_locals_veq _ _ Hl path) as Hr.
  destruct (resolve_locals l1 path) as [[a|p]| |], (resolve_locals l2 path) as [[b|q]| |]; cbn in Hr; try tauto; cbn; auto.
  subst q. pose proof (get_veq p _ _ H) as Hg. rewrite (not_present_ok_veq p _ _ H).
  destruct (get cfg p x) as [a|e|], (get cfg p y) as [b|e'|]; cbn in Hg; try tauto; cbn; auto.
  subst e'. destruct e; cbn; auto.
  destruct (unknown cfg); cbn; auto using rveq_refl. destruct (not_present_ok cfg p y); cbn; auto.
Qed.

Lemma bind_elem_lrel b sp m i k : lrel (bind_elem b sp m i k) (bind_elem b sp m i k).
Proof.
  assert (Hrefl : forall l, lrel l l).
  { induction l as [|[n x] l IH]; constructor; auto. cbn. split; auto. destruct x; cbn; auto using rveq_refl. }
  apply Hrefl.
Qed.

Lemma lrel_app a1 a2 b1 b2 : lrel a1 a2 -> lrel b1 b2 -> lrel (app a1 b1) (app a2 b2).
Proof. unfold lrel. intros. apply Forall2_app; assumption. Qed.

Lemma coll_loop_ext ev1 ev2 op b sp m : (forall ext, ev1 ext = ev2 ext) ->
  forall items i, coll_loop ev1 op b sp m i items = coll_loop ev2 op b sp m i items.
Proof. intros He. induction items as [|k r IH]; intros i; cbn [coll_loop]; [reflexivity|]. rewrite He, IH. reflexivity. Qed.

Lemma map_keys_veq t ka kb :
  Forall2 (fun x y => fst x = fst y /\ veq t (snd x) (snd y)) ka kb ->
  map (fun kv : gval * gval => match fst kv with VStr k => k | _ => "" end) ka =
  map (fun kv : gval * gval => match fst kv with VStr k => k | _ => "" end) kb.
Proof. induction 1 as [|[k1 v1] [k2 v2] ? ? [Hk _] _ IH]; cbn; [reflexivity|]. cbn in Hk. subst. rewrite IH. reflexivity. Qed.

Lemma map_const_len {A} (la lb : list A) : List.length la = List.length lb -> map (fun _ => "") la = map (fun _ => "") lb.
Proof. revert lb. induction la; destruct lb; cbn; intros; try discriminate; [reflexivity|]. f_equal. apply IHla. lia. Qed.

Theorem eval_veq e : forall l1 l2 x y, lrel l1 l2 -> rveq x y -> eval re cfg l1 e x = eval re cfg l2 e y.
Proof.
  induction e as [a IHa | op a IHa b IHb | s op raw | op s b inner IH]; intros l1 l2 x y Hl H; cbn [eval].
  - rewrite (IHa _ _ _ _ Hl H). reflexivity.
  - rewrite (IHa _ _ _ _ Hl H). destruct op; destruct (eval re cfg l2 a y) as [r e|]; try reflexivity;
      (destruct (_ || _); [reflexivity | apply IHb; assumption]).
  - pose proof (get_value_veq _ _ (spath s) _ _ Hl H) as Hg.
    destruct (get_value cfg l1 (spath s) x) as [[v|]| |], (get_value cfg l2 (spath s) y) as [[w|]| |]; cbn in Hg; try tauto; subst; try reflexivity.
    apply match_op_veq; assumption.
  - pose proof (get_value_veq _ _ (spath s) _ _ Hl H) as Hg.
    destruct (get_value cfg l1 (spath s) x) as [[v|]| |], (get_value cfg l2 (spath s) y) as [[w|]| |]; cbn in Hg; try tauto; subst; try reflexivity.
    assert (Hev : forall ext, eval re cfg (app ext l1) inner x = eval re cfg (app ext l2) inner y).
    { intros ext. apply IH; [apply lrel_app; [|assumption]|assumption].
      clear. induction ext as [|[n z] ext IHe]; constructor; auto. cbn. split; auto. destruct z; cbn; auto using rveq_refl. }
    rewrite <- (rveq_kind _ _ Hg).
    destruct v as [[t1 v1]|], w as [[t2 v2]|]; cbn [rveq] in Hg; try tauto; try reflexivity.
    destruct Hg as [<- Hv].
    inversion Hv as [t v | t a0 b0 Hab | t dyn a0 b0 Hab | t n la lb Hll | t la lb Hll | t n ka kb Hk | t name fs va vb Hu Hf | t n ka kb' kb Hkk Hsk Hnd Hperm Hk2 | t n ka kb' kb Hnk Hkd Hperm Hk2]; subst;
      cbn [kind_of]; destruct (kind_of_type t1); try reflexivity;
      try (destruct v2; try reflexivity; try (destruct (type_eqb _ _); try reflexivity); apply coll_loop_ext; assumption).
    all: try (rewrite (map_const_len la lb (Forall2_len _ _ _ Hll)); apply coll_loop_ext; assumption).
    + destruct (type_eqb _ _); try reflexivity. rewrite (map_keys_veq _ _ _ Hk). apply coll_loop_ext; assumption.
    + destruct (type_eqb _ _); try reflexivity.
      change (fun kv : gval * gval => match fst kv with VStr k => k | _ => "" end) with skey.
      rewrite (c14_sort_keys_order_free (map skey ka) (map skey kb)); [apply coll_loop_ext; assumption|].
      rewrite <- (skeys_forall2 _ kb' kb Hk2). apply Permutation_map. exact Hperm.
    + rewrite Hnk. reflexivity.
Qed.
End Ops.
End V.

(* the property-shaped statement: data that differ only in hidden contents are indistinguishable *)
Theorem c08_noninterference re (cfg : config) e (d1 d2 : iface) :
  hook cfg = None ->
  rveq (if String.eqb (tagname cfg) "" then "pointer" else tagname cfg) d1 d2 ->
  eval re cfg [] e d1 = eval re cfg [] e d2.
Proof. intros Hh H. eapply eval_veq; eauto. constructor. Qed.
Print Assumptions c08_noninterference.

(* non-vacuity: two different data related by rveq, and an expression naming the hidden field *)
Definition tyS : gtype := TStruct "S" [FD "A" true [] (TInt I0); FD "H" true [("bexpr", "-")] TString; FD "u" false [] TString].
Example c08_premise_met :
  rveq "bexpr" (Some (tyS, VStruct [VInt 1; VStr "secret1"; VStr "x"])) (Some (tyS, VStruct [VInt 1; VStr "secret2"; VStr "y"]))
  /\ VStruct [VInt 1; VStr "secret1"; VStr "x"] <> VStruct [VInt 1; VStr "secret2"; VStr "y"].
Proof.
  split; [|discriminate]. cbn. split; [reflexivity|].
  eapply veq_struct; [reflexivity|].
  constructor; [intros _; apply veq_same|].
  constructor; [cbn; discriminate|].
  constructor; [cbn; discriminate|]. constructor.
Qed.

(* C14: presenting a string-keyed map in another order changes no outcome (top level; nested occurrences are covered by the
   congruence constructors of the relation) *)
Lemma forall2_refl_veq tn t (l : list (gval * gval)) : Forall2 (fun x y => fst x = fst y /\ veq tn t (snd x) (snd y)) l l.
Proof. induction l; constructor; auto. split; [reflexivity|apply veq_same]. Qed.

Theorem c14_map_order_free re cfg e t n ka kb :
  hook cfg = None -> kind_of_type (key_type t) = KString -> str_keyed ka -> NoDup (map skey ka) -> Permutation ka kb ->
  eval re cfg [] e (Some (t, VMap n ka)) = eval re cfg [] e (Some (t, VMap n kb)).
Proof.
  intros Hh Hk Hs Hn Hp. apply c08_noninterference; [exact Hh|]. cbn. split; [reflexivity|].
  eapply veq_smap; eauto. apply forall2_refl_veq.
Qed.

Example c14_premise_met :
  let ka := [(VStr "a", VInt 1); (VStr "b", VInt 2)] in let kb := [(VStr "b", VInt 2); (VStr "a", VInt 1)] in
  str_keyed ka /\ NoDup (map skey ka) /\ Permutation ka kb /\ ka <> kb.
Proof.
  cbn. repeat split.
  - repeat constructor; eexists; reflexivity.
  - repeat constructor; cbn; intuition discriminate.
  - apply perm_swap.
  - discriminate.
Qed.
Print Assumptions c14_map_order_free.

(* C14 for maps whose key type is not `string` (int, bool, float, named string, interface keys): they cannot be quantified over, but
   they are indexed by selectors and tested by `in` / `is empty`; with pairwise unequal keys the order of the entries changes no outcome *)
Theorem c14_keyed_map_order_free re cfg e t n ka kb :
  hook cfg = None -> type_eqb (key_type t) TString = false -> keys_distinct (key_type t) ka -> Permutation ka kb ->
  eval re cfg [] e (Some (t, VMap n ka)) = eval re cfg [] e (Some (t, VMap n kb)).
Proof.
  intros Hh Hk Hd Hp. apply c08_noninterference; [exact Hh|]. cbn. split; [reflexivity|].
  eapply veq_pmap; eauto. apply forall2_refl_veq.
Qed.

(* ... and anywhere inside the datum: the relation is a congruence (pointers, interfaces, slices, arrays, map values, visible
   struct fields), so two data that differ by such reorderings at any depth, in any number of places, evaluate alike *)
Theorem c14_order_free_anywhere re cfg e (d1 d2 : iface) :
  hook cfg = None -> rveq (if String.eqb (tagname cfg) "" then "pointer" else tagname cfg) d1 d2 ->
  eval re cfg [] e d1 = eval re cfg [] e d2.
Proof. exact (c08_noninterference re cfg e d1 d2). Qed.

Example c14_keyed_premise_met :
  let t := TMap (TInt I0) TString in
  let ka := [(VInt 1, VStr "a"); (VInt 2, VStr "b")] in let kb := [(VInt 2, VStr "b"); (VInt 1, VStr "a")] in
  type_eqb (key_type t) TString = false /\ keys_distinct (key_type t) ka /\ Permutation ka kb /\ ka <> kb.
Proof.
  cbn. split; [reflexivity|]. split; [repeat constructor|]. split; [apply perm_swap| discriminate].
Qed.

(* a list of maps, one string-keyed and one int-keyed, each presented in two orders: related, hence indistinguishable *)
Example c14_nested_instance tn :
  let tm := TMap TString (TInt I0) in let ti := TMap (TInt I0) TString in
  let t := TSlice TIface in
  rveq tn (Some (t, VSlice false [VIface tm (VMap false [(VStr "a", VInt 1); (VStr "b", VInt 2)]); VIface ti (VMap false [(VInt 1, VStr "x"); (VInt 2, VStr "y")])]))
          (Some (t, VSlice false [VIface tm (VMap false [(VStr "b", VInt 2); (VStr "a", VInt 1)]); VIface ti (VMap false [(VInt 2, VStr "y"); (VInt 1, VStr "x")])])).
Proof.
  cbn. split; [reflexivity|]. apply veq_slice. constructor; [|constructor; [|constructor]].
  - apply veq_iface. eapply veq_smap; [reflexivity| repeat constructor; eexists; reflexivity| repeat constructor; cbn; intuition discriminate| apply perm_swap| apply forall2_refl_veq].
  - apply veq_iface. eapply veq_pmap; [reflexivity| cbn; repeat constructor| apply perm_swap| apply forall2_refl_veq].
Qed.
Print Assumptions c14_keyed_map_order_free.
