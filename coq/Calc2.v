From Coq Require Import List ZArith String Ascii Bool NArith Lia.
Import ListNotations.
From Bexpr Require Import Base Ast Unicode Peg Typing Actions GoGrammar Sem Term Lex Lex2 Calc.
Open Scope string_scope.

(* more combinators: success with an unknown value and frame, negative lookahead, any, star, option, classes *)

Definition pe_any (e : pexpr) (i k : list cell) : Prop :=
  all_valid i -> all_valid k /\ forall s, inp s = i -> exists v s', SEM e s (Done true v s') /\ inp s' = k /\ nerr s' = nerr s.

Lemma pe_ok_any e i k F : pe_ok e i k F -> pe_any e i k.
Proof.
  intros H Hv. destruct (H Hv) as [Hk Hs]. split; [exact Hk|]. intros s E.
  destruct (Hs s E) as [v [s1 [H1 [Hi [Hn _]]]]]. exists v, s1. auto.
Qed.

Lemma lab_any l b i k : pe_any b i k -> pe_any (PLabeled l b) i k.
Proof.
  intros H Hv. destruct (H Hv) as [Hk Hs]. split; [exact Hk|]. intros s E.
  destruct (Hs (set_fr (tk s) []) E) as [v [s1 [H1 [Hi Hn]]]].
  exists v, (bind_label (set_fr s1 (fr s)) l v). split; [exact (L_labeled l b s true v s1 H1)|]. cbn. auto.
Qed.

Lemma ref_any n ru i k : find_rule go_grammar n = Some ru -> pe_any (rexpr ru) i k -> pe_ok (PRef n) i k [].
Proof.
  intros Hf H Hv. destruct (H Hv) as [Hk Hs]. split; [exact Hk|]. intros s E.
  destruct (Hs (set_fr (tk s) []) E) as [v [s1 [H1 [Hi Hn]]]].
  exists v, (set_fr s1 (fr s)). split; [exact (L_ref n ru s true v s1 Hf H1)|]. unfold step_to. cbn. auto.
Qed.

Lemma fseqs_later_any a es i j : pe_any a i j -> fseqs es j -> fseqs (a :: es) i.
Proof.
  intros Ha Hes Hv start acc s E. destruct (Ha Hv) as [Hj Has].
  destruct (Has s E) as [v [s1 [H1 [Hi Hn]]]].
  destruct (Hes Hj start (v :: acc) s1 Hi) as [s2 [H2 [Hi2 Hn2]]].
  exists s2. split; [eapply ss_ok; eassumption|]. rewrite Hi2, Hn2, Hn. auto.
Qed.

(* sequences with unknown frames *)
Definition seqs_any (es : list pexpr) (i k : list cell) : Prop :=
  all_valid i -> all_valid k /\ forall start acc s, inp s = i -> exists v s', SEMS es start acc s (Done true v s') /\ inp s' = k /\ nerr s' = nerr s.
Lemma seqs_any_nil i : seqs_any [] i i.
Proof. intros Hv. split; [exact Hv|]. intros start acc s E. exists (VList (rev acc)), s. split; [apply ss_nil| auto]. Qed.
Lemma seqs_any_cons a es i j k : pe_any a i j -> seqs_any es j k -> seqs_any (a :: es) i k.
Proof.
  intros Ha Hes Hv. destruct (Ha Hv) as [Hj Has]. destruct (Hes Hj) as [Hk Hess]. split; [exact Hk|].
  intros start acc s E. destruct (Has s E) as [v [s1 [H1 [Hi Hn]]]].
  destruct (Hess start (v :: acc) s1 Hi) as [v2 [s2 [H2 [Hi2 Hn2]]]].
  exists v2, s2. split; [eapply ss_ok; eassumption|]. rewrite Hi2, Hn2, Hn. auto.
Qed.
Lemma seq_any es i k : seqs_any es i k -> pe_any (PSeq es) i k.
Proof.
  intros H Hv. destruct (H Hv) as [Hk Hs]. split; [exact Hk|]. intros s E.
  destruct (Hs (inp s) [] (tk s) E) as [v [s1 [H1 H2]]]. exists v, s1. split; [apply L_seq; exact H1| exact H2].
Qed.

(* choice with unknown value *)
Definition pec_any (alts : list pexpr) (i k : list cell) : Prop :=
  all_valid i -> all_valid k /\ forall s, inp s = i -> exists v s', SEMC alts s (Done true v s') /\ inp s' = k /\ nerr s' = nerr s.
Lemma pec_here a alts i k : pe_any a i k -> pec_any (a :: alts) i k.
Proof.
  intros H Hv. destruct (H Hv) as [Hk Hs]. split; [exact Hk|]. intros s E.
  destruct (Hs (set_fr s []) E) as [v [s1 [H1 [Hi Hn]]]]. exists v, (set_fr s1 (fr s)). split.
  - apply sc_ok. exact (L_w a s true v s1 H1).
  - cbn. auto.
Qed.
Lemma pec_next a alts i k : fspecj a i -> pec_any alts i k -> pec_any (a :: alts) i k.
Proof.
  intros Hf H Hv. destruct (H Hv) as [Hk Hs]. split; [exact Hk|]. intros s E.
  destruct (Hf Hv (set_fr s []) E) as [v1 [s1 [H1 [Hi Hn]]]].
  assert (E1 : inp (set_fr s1 (fr s)) = i) by exact Hi.
  destruct (Hs _ E1) as [v [s2 [H2 [Hi2 Hn2]]]]. exists v, s2. split.
  - eapply sc_next; [exact (L_w a s false v1 s1 H1)| exact H2].
  - rewrite Hi2, Hn2. cbn. auto.
Qed.
Lemma choice_any alts i k : pec_any alts i k -> pe_any (PChoice alts) i k.
Proof.
  intros H Hv. destruct (H Hv) as [Hk Hs]. split; [exact Hk|]. intros s E.
  destruct (Hs (tk s) E) as [v [s1 [H1 H2]]]. exists v, s1. split; [apply L_choice; exact H1| exact H2].
Qed.

(* an action that only looks at the matched text *)
Lemma action_any id b i k v' : pe_any b i k ->
  (forall G, action_sem id G (text_between i k) = AVal v') -> specj (PAction id b) i v' k.
Proof.
  intros H Ha Hv. destruct (H Hv) as [Hk Hs]. split; [exact Hk|]. intros s E.
  destruct (Hs (tk s) E) as [v [s1 [H1 [Hi Hn]]]]. exists s1. split; [|auto].
  eapply L_action_ok; [exact H1|]. rewrite E, Hi. apply Ha.
Qed.

(* negative lookahead *)
Lemma L_not b s ok v s' : SEM b (set_fr (tk s) []) (Done ok v s') ->
  SEM (PNot b) s (Done (negb ok) VNil (set_inp (set_fr s' (fr s)) (inp s))).
Proof.
  intros H. apply sem_tick.
  exact (sb_not go_grammar action_sem pred_sem b (tk s) _ (sw _ _ _ b (tk s) _ H)).
Qed.

Lemma not_ok b i : fspecj b i -> pe_ok (PNot b) i i [].
Proof.
  intros H Hv. split; [exact Hv|]. intros s E.
  destruct (H Hv (set_fr (tk s) []) E) as [v [s1 [H1 [Hi Hn]]]].
  exists VNil, (set_inp (set_fr s1 (fr s)) (inp s)). split; [exact (L_not b s false v s1 H1)|].
  unfold step_to. cbn. auto.
Qed.

Lemma not_fails b i k : pe_any b i k -> fspecj (PNot b) i.
Proof.
  intros H Hv s E. destruct (H Hv) as [_ Hs].
  destruct (Hs (set_fr (tk s) []) E) as [v [s1 [H1 [Hi Hn]]]].
  exists VNil, (set_inp (set_fr s1 (fr s)) (inp s)). split; [exact (L_not b s true v s1 H1)|]. cbn. auto.
Qed.

(* any character *)
Lemma any_ok c rest : pe_ok PAny (c :: rest) rest [].
Proof.
  intros Hv. inversion Hv as [|? ? _ Hv']; subst. split; [exact Hv'|]. intros s E.
  set (s1 := tk s). assert (E1 : inp s1 = c :: rest) by exact E.
  assert (Hb : body go_grammar action_sem pred_sem no_rec 0 PAny s1 = Done true (VBytes (cbytes c)) (advance s1)).
  { cbn [body]. rewrite E1. reflexivity. }
  destruct (advance_keeps s1 c rest E1 Hv') as [Hi [Hn Hf]].
  exists (VBytes (cbytes c)), (advance s1). split.
  - apply sem_tick. fold s1. rewrite <- Hb. apply sb_leaf. reflexivity.
  - unfold step_to. cbn. auto.
Qed.

(* classes *)
Lemma class_ok cc c rest : class_match cc (crune c) = true -> pe_ok (PClass cc) (c :: rest) rest [].
Proof.
  intros Hc Hv. inversion Hv as [|? ? _ Hv']; subst. split; [exact Hv'|]. intros s E.
  destruct (sem_class_hit cc s c rest E Hv' Hc) as [s1 [H1 H2]]. exists (VBytes (cbytes c)), s1. split; [exact H1| exact H2].
Qed.

Definition class_miss (cc : charclass) (i : list cell) : Prop := match i with [] => True | c :: _ => class_match cc (crune c) = false end.
Lemma fclass cc i : class_miss cc i -> fspecj (PClass cc) i.
Proof.
  intros H _ s E. exists VNil, (tk s). split; [apply sem_class_miss; rewrite E; exact H|]. cbn. auto.
Qed.

(* option whose body fails *)
Lemma opt_none b i : fspecj b i -> pe_ok (POpt b) i i [].
Proof.
  intros H Hv. split; [exact Hv|]. intros s E.
  destruct (H Hv (set_fr (tk s) []) E) as [v [s1 [H1 [Hi Hn]]]].
  exists VNil, (set_fr s1 (fr s)). split; [exact (L_opt b s false v s1 H1)|]. unfold step_to. cbn. auto.
Qed.

(* greedy repetition, cell by cell *)
Lemma star_ok e (P : cell -> Prop) k :
  (forall c rest, P c -> pe_any e (c :: rest) rest) -> fspecj e k ->
  forall cs, Forall P cs -> pe_ok (PStar e) (app cs k) k [].
Proof.
  intros He Hf cs Hcs Hv. split; [exact (proj2 (proj1 (Forall_app _ _ _) Hv))|].
  assert (Hr : forall cs, Forall P cs -> all_valid (app cs k) -> forall acc s, inp s = app cs k ->
               exists v s', SEMR e acc s (Done true v s') /\ keeps s s' k).
  { clear cs Hcs Hv. induction cs as [|c cs IH]; intros Hcs Hv acc s E.
    - cbn [app] in *. destruct (Hf Hv (set_fr s []) E) as [v [s1 [H1 [Hi Hn]]]].
      exists (VList (rev acc)), (set_fr s1 (fr s)). split; [eapply sr_stop; exact (L_w e s false v s1 H1)|].
      unfold keeps. cbn. auto.
    - cbn [app] in *. inversion Hcs as [|? ? Hc Hcs']; subst.
      destruct (He c (app cs k) Hc Hv) as [Hv' Hs].
      destruct (Hs (set_fr s []) E) as [v [s1 [H1 [Hi Hn]]]].
      assert (E1 : inp (set_fr s1 (fr s)) = app cs k) by exact Hi.
      destruct (IH Hcs' Hv' (v :: acc) _ E1) as [v2 [s2 [H2 [Hi2 [Hn2 Hf2]]]]].
      exists v2, s2. split; [eapply sr_more; [exact (L_w e s true v s1 H1)| exact H2]|].
      unfold keeps. rewrite Hi2, Hn2, Hf2. cbn. auto. }
  intros s E. destruct (Hr cs Hcs Hv [] (tk s) E) as [v [s1 [H1 H2]]].
  exists v, s1. split; [apply sem_tick; apply sb_star; exact H1| exact H2].
Qed.

Lemma flabeled l b i : fspecj b i -> fspecj (PLabeled l b) i.
Proof.
  intros H Hv s E. destruct (H Hv (set_fr (tk s) []) E) as [v [s1 [H1 [Hi Hn]]]].
  exists v, (set_fr s1 (fr s)). split; [exact (L_labeled l b s false v s1 H1)|]. cbn. auto.
Qed.

Lemma fchoice alts i : Forall (fun a => fspecj a i) alts -> fspecj (PChoice alts) i.
Proof.
  intros Ha Hv.
  assert (Hc : forall s, inp s = i -> exists v s', SEMC alts s (Done false v s') /\ inp s' = i /\ nerr s' = nerr s).
  { induction Ha as [|a alts Hfa _ IH]; intros s E.
    - exists VNil, s. split; [apply sc_nil| auto].
    - destruct (Hfa Hv (set_fr s []) E) as [v [s1 [H1 [Hi Hn]]]].
      assert (E1 : inp (set_fr s1 (fr s)) = i) by exact Hi.
      destruct (IH _ E1) as [v2 [s2 [H2 [Hi2 Hn2]]]]. exists v2, s2. split.
      + eapply sc_next; [exact (L_w a s false v s1 H1)| exact H2].
      + rewrite Hi2, Hn2. cbn. auto. }
  intros s E. destruct (Hc (tk s) E) as [v [s1 [H1 H2]]]. exists v, s1. split; [apply L_choice; exact H1| exact H2].
Qed.
Print Assumptions star_ok.

(* a literal that is not a prefix of the input (mismatch at any position) *)
Fixpoint prefix_runes (l : list Z) (txt : list cell) : bool :=
  match l, txt with
  | [], _ => true
  | c :: l', x :: t' => Z.eqb (crune x) c && prefix_runes l' t'
  | _ :: _, [] => false
  end.

Lemma lit_go_miss : forall l txt start s, inp s = txt -> all_valid txt -> prefix_runes l txt = false ->
  exists s', lit_go l start s = (false, s') /\ inp s' = start /\ nerr s' = nerr s /\ fr s' = fr s.
Proof.
  induction l as [|c l IH]; intros txt start s E Hv Hp; [discriminate Hp|].
  cbn [lit_go]. rewrite E. destruct txt as [|x t'].
  - exists (set_inp s start). cbn. auto.
  - cbn [prefix_runes] in Hp. destruct (Z.eqb (crune x) c) eqn:Ex.
    + cbn [andb] in Hp. inversion Hv as [|? ? _ Hv']; subst.
      destruct (advance_keeps s x t' E Hv') as [Hi [Hn Hf]].
      destruct (IH t' start (advance s) Hi Hv' Hp) as [s' [H1 [Hi' [Hn' Hf']]]].
      exists s'. rewrite H1, Hi', Hn', Hf', Hn, Hf. auto.
    + exists (set_inp s start). cbn. auto.
Qed.

Lemma flit_prefix l i : prefix_runes l i = false -> fspecj (PLit l false) i.
Proof.
  intros Hp Hv s E. set (s1 := tk s). assert (E1 : inp s1 = i) by exact E.
  destruct (lit_go_miss l i (inp s1) s1 E1 Hv Hp) as [s2 [H2 [Hi [Hn Hf]]]].
  assert (Hb : body go_grammar action_sem pred_sem no_rec 0 (PLit l false) s1 = Done false VNil s2).
  { cbn [body]. rewrite H2. reflexivity. }
  exists VNil, s2. split.
  - apply sem_tick. fold s1. rewrite <- Hb. apply sb_leaf. reflexivity.
  - rewrite Hi, Hn. cbn. auto.
Qed.
