From Coq Require Import List ZArith String Ascii Bool NArith Lia.
Import ListNotations.
From Bexpr Require Import Base Ast Unicode Peg Typing Actions GoGrammar Sem Term Lex Lex2 Lex3 Calc Calc2 Skel Top Atoms StrLit AtomsEq C16 NoHdr.
Open Scope string_scope.

(* C16, literal fidelity at the level of Parse: for every byte string s (non-empty, not starting with a slash)
   and every plain name,   name == <quote_double s>   parses to the match of name against exactly s. *)

Definition acell (b : ascii) : cell := {| crune := b2z b; cbytes := String b ""; cvalid := true |}.
Fixpoint acells (s : string) : list cell := match s with "" => [] | String b t => acell b :: acells t end.
Fixpoint all_ascii (s : string) : bool := match s with "" => true | String b t => (b2z b <? 128)%Z && all_ascii t end.

Lemma decode_ascii : forall s f, all_ascii s = true -> (String.length s <= f)%nat -> decode f s = acells s.
Proof.
  induction s as [|b t IH]; intros f Ha Hf.
  - destruct f; reflexivity.
  - cbn in Ha. apply andb_true_iff in Ha. destruct Ha as [Hb Ht].
    destruct f as [|f]; [cbn in Hf; lia|]. cbn [decode decode1]. rewrite Hb. cbn [acells].
    rewrite (IH f Ht); [reflexivity|]. cbn in Hf. lia.
Qed.

Lemma utf8_cells_ascii s : all_ascii s = true -> utf8_cells s = acells s.
Proof. intros H. apply decode_ascii; [exact H| lia]. Qed.

Lemma cells_str_acells s : cells_str (acells s) = s.
Proof. induction s as [|b t IH]; cbn; [reflexivity|]. unfold cells_str in IH. rewrite IH. reflexivity. Qed.

Lemma acells_app a b : acells (a ++ b) = app (acells a) (acells b).
Proof. induction a as [|c a IH]; cbn; [reflexivity|]. rewrite IH. reflexivity. Qed.

Lemma all_ascii_app a b : all_ascii (a ++ b) = all_ascii a && all_ascii b.
Proof. induction a as [|c a IH]; cbn; [reflexivity|]. rewrite IH, andb_assoc. reflexivity. Qed.

Lemma acells_valid s : all_valid (acells s).
Proof. induction s as [|b t IH]; cbn; constructor; [reflexivity| exact IH]. Qed.

(* the escaped body is ASCII and contains no double quote *)
Definition plain_byte (b : ascii) : bool := (b2z b <? 128)%Z && negb (b2z b =? 34)%Z.
Fixpoint all_plain (s : string) : bool := match s with "" => true | String b t => plain_byte b && all_plain t end.

Lemma hexdig_plain n : (0 <= n < 16)%Z -> plain_byte (hexdig n) = true.
Proof.
  intros H. unfold plain_byte, hexdig. destruct (n <? 10)%Z eqn:E.
  - rewrite b2z_z2b by lia. apply Z.ltb_lt in E. apply andb_true_iff. split; [apply Z.ltb_lt; lia|].
    apply negb_true_iff. apply Z.eqb_neq. lia.
  - rewrite b2z_z2b by lia. apply Z.ltb_ge in E. apply andb_true_iff. split; [apply Z.ltb_lt; lia|].
    apply negb_true_iff. apply Z.eqb_neq. lia.
Qed.

Lemma esc_plain c : all_plain (esc c) = true.
Proof.
  unfold esc. pose proof (b2z_range c) as Hr. destruct (safe (b2z c)) eqn:Es.
  - apply safe_spec in Es. cbn. unfold plain_byte. rewrite andb_true_r. apply andb_true_iff. split; [apply Z.ltb_lt; lia|].
    apply negb_true_iff. apply Z.eqb_neq. lia.
  - cbn [all_plain]. rewrite (hexdig_plain (b2z c / 16)), (hexdig_plain (b2z c mod 16)).
    + reflexivity.
    + apply Z.mod_pos_bound. lia.
    + split; [apply Z.div_pos; lia| apply Z.div_lt_upper_bound; lia].
Qed.

Lemma all_plain_app a b : all_plain (a ++ b) = all_plain a && all_plain b.
Proof. induction a as [|c a IH]; cbn; [reflexivity|]. rewrite IH, andb_assoc. reflexivity. Qed.

Lemma esc_all_plain s : all_plain (esc_all s) = true.
Proof. induction s as [|c t IH]; cbn; [reflexivity|]. rewrite all_plain_app, esc_plain, IH. reflexivity. Qed.

Lemma plain_ascii s : all_plain s = true -> all_ascii s = true.
Proof.
  induction s as [|b t IH]; cbn; [reflexivity|]. intros H. apply andb_true_iff in H. destruct H as [Hb Ht].
  unfold plain_byte in Hb. apply andb_true_iff in Hb. destruct Hb as [Hb _]. rewrite Hb, (IH Ht). reflexivity.
Qed.

Lemma plain_not_dq s : all_plain s = true -> Forall not_dq (acells s).
Proof.
  induction s as [|b t IH]; cbn; [constructor|]. intros H. apply andb_true_iff in H. destruct H as [Hb Ht].
  constructor; [|exact (IH Ht)]. unfold plain_byte in Hb. apply andb_true_iff in Hb. destruct Hb as [_ Hb].
  apply negb_true_iff in Hb. apply Z.eqb_neq in Hb. exact Hb.
Qed.

(* the first escaped byte is a slash only if the first byte is *)
Lemma esc_head c : b2z c <> 47%Z -> exists h t, esc c = String h t /\ b2z h <> 47%Z.
Proof.
  intros H. unfold esc. destruct (safe (b2z c)).
  - exists c, "". auto.
  - eexists _, _. split; [reflexivity|]. cbn. discriminate.
Qed.
Print Assumptions esc_head.

(* ---- plain names ---- *)
Fixpoint tail_ok (s : string) : Prop :=
  match s with "" => True | String b t => class_match cls_id_tail (b2z b) = true /\ tail_ok t end.

Lemma tail_cells s : tail_ok s -> id_tail_ok (acells s).
Proof. induction s as [|b t IH]; cbn; intros H; [constructor|]. destruct H as [Hb Ht]. constructor; [exact Hb| exact (IH Ht)]. Qed.

Lemma head_class_ascii z : class_match cls_id_head z = true -> (z <? 128)%Z = true.
Proof.
  unfold class_match. cbn. intros H. apply Z.ltb_lt.
  repeat rewrite orb_false_r in H. repeat rewrite orb_false_l in H.
  apply orb_true_iff in H. destruct H as [H|H]; apply andb_true_iff in H; destruct H as [_ H]; apply Z.leb_le in H; lia.
Qed.

Lemma tail_class_ascii z : class_match cls_id_tail z = true -> (z <? 128)%Z = true.
Proof.
  unfold class_match. cbn. intros H. apply Z.ltb_lt.
  repeat rewrite orb_false_r in H.
  repeat (apply orb_true_iff in H; destruct H as [H|H]);
    try (apply Z.eqb_eq in H; lia);
    try (apply andb_true_iff in H; destruct H as [_ H]; apply Z.leb_le in H; lia).
Qed.

Lemma tail_ascii s : tail_ok s -> all_ascii s = true.
Proof. induction s as [|b t IH]; cbn; intros H; [reflexivity|]. destruct H as [Hb Ht]. rewrite (tail_class_ascii _ Hb), (IH Ht). reflexivity. Qed.

Section Fid.
Variables (c0 : ascii) (rest : string) (c : ascii) (t : string).
Hypothesis Hhead : class_match cls_id_head (b2z c0) = true.
Hypothesis Htail : tail_ok rest.
Hypothesis Hn : b2z c0 <> 110%Z.
Hypothesis Hslash : b2z c <> 47%Z.
Let name := String c0 rest.
Let s := String c t.

Definition qc : cell := acell dq.

Lemma body_split : exists h tl, esc_all s = String h tl /\ b2z h <> 47%Z.
Proof.
  destruct (esc_head c Hslash) as [h [t' [E Hh]]]. exists h, (t' ++ esc_all t). split; [|exact Hh].
  unfold s. cbn [esc_all]. rewrite E. reflexivity.
Qed.

Lemma quoted_cells : acells (quote_double s) = qc :: app (acells (esc_all s)) [qc].
Proof. unfold quote_double. cbn [acells]. rewrite acells_app. reflexivity. Qed.

Theorem c16_literal_fidelity_parse :
  exists f0, forall f, (f0 <= f)%nat -> exists n,
    parse go_grammar None action_sem pred_sem f (name ++ " == " ++ quote_double s)
    = Accepted (VExpr (EMatch {| stype := SelBexpr; spath := [name] |} OpEq (Some s))) n.
Proof.
  destruct body_split as [h [tl [Eb Hh]]].
  assert (Hplain : all_plain (esc_all s) = true) by apply esc_all_plain.
  assert (Hbody : Forall not_dq (acell h :: acells tl)).
  { pose proof (plain_not_dq _ Hplain) as H. rewrite Eb in H. exact H. }
  assert (Hunq : unquote (cells_str (qc :: app (acell h :: acells tl) [qc])) = Some s).
  { change (acell h :: acells tl) with (acells (String h tl)). rewrite <- Eb, <- quoted_cells, cells_str_acells.
    apply c16_quoted_literal. }
  set (a := {| e_first := (acell c0, acells rest); e_rest := []; e_w1 := [sp]; e_w2 := [sp];
               e_q := qc; e_x := acell h; e_cs := acells tl; e_q' := qc; e_lit := s;
               e_ok1 := conj Hhead (tail_cells rest Htail); e_ok2 := Forall_nil _; e_not_n := Hn;
               e_ws1 := Forall_cons _ is_ws_sp (Forall_nil _); e_ws2 := Forall_cons _ is_ws_sp (Forall_nil _);
               e_hq := eq_refl; e_hq' := eq_refl; e_hx := Hh; e_body := Hbody; e_unq := Hunq |}).
  assert (Hexp : e_exp a = EMatch {| stype := SelBexpr; spath := [name] |} OpEq (Some s)).
  { unfold e_exp, e_sel, a. cbn [e_first e_rest e_lit map]. unfold ident_str. cbn [fst snd].
    change (acell c0 :: acells rest) with (acells name). rewrite cells_str_acells. reflexivity. }
  rewrite <- Hexp.
  assert (Hascii : all_ascii (name ++ " == " ++ quote_double s) = true).
  { rewrite !all_ascii_app. unfold name. cbn [all_ascii]. rewrite (head_class_ascii _ Hhead), (tail_ascii _ Htail).
    unfold quote_double. cbn [all_ascii]. rewrite all_ascii_app, (plain_ascii _ Hplain). reflexivity. }
  apply (c16_skeleton_parse2 _ (e_exp a) (e_txt a) [] []).
  - apply r_or_and. apply r_and_not. apply r_not_par. exact (r_atom atom2 atxt2 aexp2 Empty_set htxt0 hop0 hsel0 hbind0 (inr a)).
  - constructor.
  - constructor.
  - rewrite (utf8_cells_ascii _ Hascii). rewrite !acells_app, quoted_cells, Eb. cbn [app]. rewrite app_nil_r.
    unfold e_txt, a, eq_tail, e_lit_cells. cbn [e_first e_rest e_w1 e_w2 e_q e_x e_cs e_q' fst snd dotted app].
    unfold name. cbn [acells]. reflexivity.
  - rewrite (utf8_cells_ascii _ Hascii). apply acells_valid.
Qed.
End Fid.
Print Assumptions c16_literal_fidelity_parse.

Example fidelity_instance :
  exists f0, forall f, (f0 <= f)%nat -> exists n,
    parse go_grammar None action_sem pred_sem f ("path == " ++ quote_double ("a""b\c" ++ String (z2b 10) ""))
    = Accepted (VExpr (EMatch {| stype := SelBexpr; spath := ["path"] |} OpEq (Some ("a""b\c" ++ String (z2b 10) "")))) n.
Proof.
  refine (c16_literal_fidelity_parse "p" "ath" "a" ("""b\c" ++ String (z2b 10) "") _ _ _ _).
  - reflexivity.
  - cbn. repeat split.
  - cbn. discriminate.
  - cbn. discriminate.
Qed.
