(* Property C05 - absent map keys follow the documented table; unknown-value substitutes exactly. Statements only (proofs: C05.v). *)
From Coq Require Import List String ZArith NArith Bool. From Bexpr Require Import Base Strconv Ast Univ Eval C05. Import ListNotations.

Theorem not_present_ok_spec :
  forall (cfg : config) (p : list string) (d : iface),
  not_present_ok cfg p d = true <->
  (2 <= Datatypes.length p)%nat /\ (exists (t : gtype) (v : gval), get cfg (removelast p) d = Ok (Some (t, v)) /\ kind_of_type t = KMap).
Proof. exact C05.not_present_ok_spec. Qed.
Print Assumptions not_present_ok_spec.

Theorem c05_absent_leaf_in_map :
  forall (re : string -> string -> option bool) (cfg : config) (s : selector) (op : matchop) (v : option string) (d : iface),
  unknown cfg = None ->
  get cfg (spath s) d = Err ENotFound ->
  not_present_ok cfg (spath s) d = true ->
  eval re cfg [] (EMatch s op v) d = Out (disposition op) None /\
  (forall (b : binding) (body : expr),
   eval re cfg [] (EColl CAll s b body) d = Out true None /\ eval re cfg [] (EColl CAny s b body) d = Out false None).
Proof. exact C05.c05_absent_leaf_in_map. Qed.
Print Assumptions c05_absent_leaf_in_map.

Theorem c05_absent_elsewhere_is_error :
  forall (re : string -> string -> option bool) (cfg : config) (s : selector) (op : matchop) (v : option string) (d : iface),
  unknown cfg = None ->
  get cfg (spath s) d = Err ENotFound ->
  not_present_ok cfg (spath s) d = false ->
  eval re cfg [] (EMatch s op v) d = Out false (Some ENotFound) /\
  (forall (cop : collop) (b : binding) (body : expr), eval re cfg [] (EColl cop s b body) d = Out false (Some ENotFound)).
Proof. exact C05.c05_absent_elsewhere_is_error. Qed.
Print Assumptions c05_absent_elsewhere_is_error.

Theorem c05_other_errors_stay :
  forall (re : string -> string -> option bool) (cfg : config) (s : selector) (op : matchop) (v : option string) (d : iface) (e : errc),
  get cfg (spath s) d = Err e -> e <> ENotFound -> eval re cfg [] (EMatch s op v) d = Out false (Some e).
Proof. exact C05.c05_other_errors_stay. Qed.
Print Assumptions c05_other_errors_stay.

Theorem c05_unknown_substitutes :
  forall (re : string -> string -> option bool) (cfg : config) (s : selector) (op : matchop) (v : option string) (d u : iface),
  unknown cfg = Some u -> get cfg (spath s) d = Err ENotFound -> eval re cfg [] (EMatch s op v) d = match_op re op v u.
Proof. exact C05.c05_unknown_substitutes. Qed.
Print Assumptions c05_unknown_substitutes.

Theorem c05_unknown_neutral :
  forall (re : string -> string -> option bool) (cfg : config) (u : option iface) (e : expr),
  unknown cfg = None -> forall (ls : locals) (d : iface), all_resolve cfg ls e d -> eval re (with_unknown cfg u) ls e d = eval re cfg ls e d.
Proof. exact C05.c05_unknown_neutral. Qed.
Print Assumptions c05_unknown_neutral.


(* ---- ties to the constant tables regenerated from the Go sources (tools/gotables -> GoTables.v) ---- *)
From Coq Require Import List String ZArith NArith Bool. From Bexpr Require Import Base Strconv Ast Univ Eval Api Dump GoTables TableTie TieNotPresent. Import ListNotations.

Theorem not_present_table :
  forall op : matchop, table_or_default (mop_go op) go_not_present = Some (bool_go (disposition op)).
Proof. exact TieNotPresent.not_present_table. Qed.
Print Assumptions not_present_table.

Theorem not_present_default :
  assoc "default" go_not_present = Some "false".
Proof. exact TieNotPresent.not_present_default. Qed.
Print Assumptions not_present_default.


(* ---- JSON documents: the unknown value against the documented interpreter (JsonEval.v) ---- *)
From Bexpr Require Import Typing Lexical LexEval Json JsonOps JsonEval.

Theorem json_unknown_is_substitution :
  forall (re : string -> string -> option bool) (u : json) (cfg : config) (e : expr) (root : json),
  hook cfg = None -> unknown cfg = Some (doc u) -> wf_ast e -> clean (eval re cfg [] e (doc root)) = jeval re (Some u) [] e root.
Proof. exact JsonEval.json_unknown_is_substitution. Qed.
Print Assumptions json_unknown_is_substitution.

Theorem json_unknown_example :
  let root := JObj [("a", JObj [("b", JNum 0)])] in
  let sel := fun p : list string => {| stype := SelBexpr; spath := p |} in
  jeval (fun _ _ : string => None) (Some (JStr "x")) [] (EMatch (sel ["a"; "zz"]) OpEq (Some "x")) root = Some true /\
  jeval (fun _ _ : string => None) (Some (JStr "x")) [] (EMatch (sel ["zz"]) OpEq (Some "x")) root = Some true /\
  jeval (fun _ _ : string => None) None [] (EMatch (sel ["zz"]) OpEq (Some "x")) root = None /\
  jeval (fun _ _ : string => None) None [] (EMatch (sel ["a"; "zz"]) OpEq (Some "x")) root = Some false /\
  jeval (fun _ _ : string => None) (Some JNull) [] (EMatch (sel ["a"; "zz"]) OpEq (Some "x")) root = None.
Proof. exact JsonEval.json_unknown_example. Qed.
Print Assumptions json_unknown_example.

