From Bexpr Require Import Base Strconv Ast Unicode Peg Typing Actions GoGrammar Univ Eval Api Dump.
Require Import ExtrOcamlBasic.
From Coq Require Import List String ZArith.
Import ListNotations.

Definition big_fuel : nat := 200000.
Definition model_parse (mx : option N) (s : string) := parse go_grammar mx action_sem pred_sem big_fuel s.
Definition model_eval (re : string -> string -> option bool) (tag : string) (unk : option iface) (e : expr) (d : iface) : outcome :=
  eval re {| tagname := tag; hook := None; unknown := unk |} [] e d.
Cd "ml".
Extraction "model.ml" model_parse model_eval z2b b2z.
