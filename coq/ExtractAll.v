(* Extraction of the model entry points for the volume path of the correspondence checks.
   Only ExtrOcamlBasic is used: Z, N, positive, nat, ascii and string stay as extracted inductives.
   Compiled from build/ocaml (the .ml files are written to the current directory). *)
From Bexpr Require Import Base Strconv Ast Unicode Peg Typing Actions GoGrammar PegGrammar Univ Eval Api Dump Quote Json JsonOps JsonEval ModelApi.
Require Import ExtrOcamlBasic.
From Coq Require Import List String ZArith.
Extraction "model.ml" model_parse model_parse_peg model_eval model_create model_evaluate model_execute model_dump model_jeval
  go_quote unquote parse_int parse_uint parse_float parse_bool ptr_unescape utf8_cells valid_utf8 selector_string z2b b2z Z.abs Z.div_eucl Z.add Z.mul Z.opp.
