(* Label canonicalisation for the EXECUTABLE model.  The hand-written action semantics (Actions.v) looks labels up by
   the names they had when it was written (ActionsPinned.v).  A harmless rename of a label in grammar.peg/grammar.go
   would make the executable model stale and the correspondence would then blame the code.  canon_grammar renames the
   labels of each rule back to the pinned names, by position in the parameter lists of the rule's code blocks.  On the
   unchanged tree it is the identity (canon_go_id, by computation), so every theorem about `parse go_grammar ...`
   is a theorem about the function the correspondence runs. *)
From Coq Require Import List String Bool.
From Bexpr Require Import Base Ast Unicode Peg GoGrammar PegGrammar ActionsPinned.
Import ListNotations.
Open Scope string_scope.

(* the code blocks of an expression, in pre-order (the order in which pigeon emits the on*/callon* functions) *)
Fixpoint code_ids (e : pexpr) : list string :=
  match e with
  | PAction id e' => id :: code_ids e'
  | PAndCode id | PNotCode id => [id]
  | PAnd e' | PNot e' | PLabeled _ e' | PStar e' | PPlus e' | POpt e' => code_ids e'
  | PChoice l | PSeq l => flat_map code_ids l
  | PAny | PClass _ | PLit _ _ | PRef _ => []
  end.

Fixpoint sassoc (k : string) (l : list (string * string)) : option string :=
  match l with [] => None | (k', v) :: r => if String.eqb k k' then Some v else sassoc k r end.

Definition params4 (tbl : list (string * list string * list string * list string)) (id : string) : option (list string) :=
  match find (fun a => match a with (n, _, _, _) => String.eqb n id end) tbl with Some (_, ps, _, _) => Some ps | None => None end.
Definition params3 (tbl : list (string * list string * list string)) (id : string) : option (list string) :=
  match find (fun a => match a with (n, _, _) => String.eqb n id end) tbl with Some (_, ps, _) => Some ps | None => None end.

Definition label_map (now pinned : option (list string)) : list (string * string) :=
  match now, pinned with
  | Some a, Some b => if Nat.eqb (List.length a) (List.length b) then combine a b else []
  | _, _ => [] end.

Fixpoint rename_labels (m : list (string * string)) (e : pexpr) : pexpr :=
  match e with
  | PAction id b => PAction id (rename_labels m b)
  | PAnd b => PAnd (rename_labels m b) | PNot b => PNot (rename_labels m b)
  | PChoice l => PChoice (map (rename_labels m) l) | PSeq l => PSeq (map (rename_labels m) l)
  | PLabeled l b => PLabeled (match sassoc l m with Some l' => l' | None => l end) (rename_labels m b)
  | PStar b => PStar (rename_labels m b) | PPlus b => PPlus (rename_labels m b) | POpt b => POpt (rename_labels m b)
  | _ => e
  end.

Definition canon_rule (now : string -> option (list string)) (r : rule) : rule :=
  let m := flat_map (fun id => label_map (now id) (params4 pinned_actions id)) (code_ids (rexpr r)) in
  {| rname := rname r; rdisplay := rdisplay r; rexpr := rename_labels m (rexpr r) |}.

Definition canon_go (g : list rule) : list rule := map (canon_rule (params4 go_actions)) g.
Definition canon_peg (g : list rule) : list rule := map (canon_rule (params3 peg_actions)) g.
