From Coq Require Import List ZArith String Ascii Bool NArith Lia.
Import ListNotations.
From Bexpr Require Import Base Ast Unicode Peg Typing Actions GoGrammar Sem Term Lex Lex2.
Open Scope string_scope.

Lemma sem_lit1_hit c s x rest : inp s = x :: rest -> crune x = c -> all_valid rest ->
  exists v s', SEM (PLit [c] false) s (Done true v s') /\ keeps s s' rest.
Proof.
  intros E Hx Hv. set (s1 := tk s).
  assert (E1 : inp s1 = x :: rest) by exact E.
  assert (Hb : exists v, body go_grammar action_sem pred_sem no_rec 0 (PLit [c] false) s1 = Done true v (advance s1)).
  { cbn [body lit_go]. rewrite E1. rewrite Hx, Z.eqb_refl. eexists. reflexivity. }
  destruct Hb as [v Hb]. exists v, (advance s1). split.
  - apply sem_tick. fold s1. rewrite <- Hb. apply sb_leaf. reflexivity.
  - destruct (advance_keeps s1 x rest E1 Hv) as [H1 [H2 H3]]. unfold keeps. auto.
Qed.

Definition id_tail_ok (cs : list cell) := Forall (fun c => class_match cls_id_tail (crune c) = true) cs.
Definition id_stop (k : list cell) := match k with [] => True | c :: _ => class_match cls_id_tail (crune c) = false end.

Definition sel_seg : pexpr := PSeq [PLit [46]%Z false; PLabeled "ident" (PRef "Identifier")].

(* one dotted step: .ident *)
Lemma sem_dot_ident dot c cs k s :
  inp s = dot :: c :: app cs k -> crune dot = 46%Z -> cvalid c = true -> all_valid (app cs k) ->
  class_match cls_id_head (crune c) = true -> id_tail_ok cs -> id_stop k ->
  exists s', SEM (PRef "SelectorOrIndex") s (Done true (VStr (cells_str (c :: cs))) s') /\ keeps s s' k.
Proof.
  intros E Hd Hvc Hv Hh Ht Hk.
  set (sA := set_fr (tk s) []). set (sB := set_fr (tk sA) []). set (sC := tk (tk sB)).
  assert (EC : inp sC = dot :: c :: app cs k) by exact E.
  destruct (sem_lit1_hit 46 sC dot _ EC Hd (Forall_cons _ Hvc Hv)) as [v1 [s1 [H1 [Hi1 [Hn1 Hf1]]]]].
  set (sD := set_fr (tk s1) []).
  destruct (sem_identifier c cs k sD Hi1 Hv Hh Ht Hk) as [sI [HI [HiI [HnI HfI]]]].
  pose proof (L_labeled "ident" _ s1 true _ sI HI) as HL. cbv iota in HL.
  set (s2 := bind_label (set_fr sI (fr s1)) "ident" (VStr (cells_str (c :: cs)))) in HL.
  assert (Hseq : SEM sel_seg (tk sB) (Done true (VList (rev [VStr (cells_str (c :: cs)); v1])) s2)).
  { apply L_seq. eapply ss_ok; [exact H1|]. eapply ss_ok; [exact HL|]. apply ss_nil. }
  assert (Hact : SEM (PAction "SelectorOrIndex2" sel_seg) sB (Done true (VStr (cells_str (c :: cs))) s2)).
  { eapply L_action_ok; [exact Hseq|]. reflexivity. }
  exists (set_fr (set_fr s2 (fr (tk sA))) (fr s)). split.
  - eapply L_ref; [reflexivity|]. cbn [rexpr]. apply L_choice. apply sc_ok. exact (L_w _ (tk sA) true _ s2 Hact).
  - unfold keeps. cbn. rewrite HiI, HnI. cbn. rewrite Hn1. auto.
Qed.

(* identifiers as data *)
Definition ident := (cell * list cell)%type.
Definition ident_ok (i : ident) : Prop := class_match cls_id_head (crune (fst i)) = true /\ id_tail_ok (snd i).
Definition ident_str (i : ident) : string := cells_str (fst i :: snd i).
Fixpoint dotted (dot : cell) (segs : list ident) (k : list cell) : list cell :=
  match segs with [] => k | i :: r => dot :: fst i :: app (snd i) (dotted dot r k) end.
Definition sel_stop (k : list cell) : Prop := id_stop k /\ no_dot_no_bracket k.

Lemma id_stop_dotted dot segs k : crune dot = 46%Z -> id_stop k -> id_stop (dotted dot segs k).
Proof. intros Hd Hk. destruct segs as [|i r]; cbn; [exact Hk|]. rewrite Hd. reflexivity. Qed.

Lemma semr_dotted dot k : crune dot = 46%Z -> sel_stop k ->
  forall segs acc s, inp s = dotted dot segs k -> all_valid (dotted dot segs k) -> Forall ident_ok segs ->
  exists s', SEMR (PRef "SelectorOrIndex") acc s (Done true (VList (rev (app (rev (map (fun i => VStr (ident_str i)) segs)) acc))) s') /\ keeps s s' k.
Proof.
  intros Hd [Hk1 Hk2]. induction segs as [|i r IH]; intros acc s E Hv Hok.
  - cbn in E. cbn [map rev app].
    destruct (fails_selector_or_index (set_fr s [])) as [v [s1 [H1 [Hi [Hn Hf]]]]]; [cbn; rewrite E; exact Hk2|].
    exists (set_fr s1 (fr s)). split.
    + eapply sr_stop. exact (L_w _ s false v s1 H1).
    + unfold keeps. cbn. rewrite Hi, Hn. cbn. auto.
  - destruct i as [c cs]. cbn [dotted fst snd] in E, Hv.
    inversion Hok as [|? ? [Hh Ht] Hok']; subst. cbn [fst snd] in Hh, Ht.
    inversion Hv as [|? ? _ Hv1]; subst. inversion Hv1 as [|? ? Hvc Hv2]; subst.
    pose proof (proj2 (proj1 (Forall_app _ _ _) Hv2)) as Hv3.
    destruct (sem_dot_ident dot c cs (dotted dot r k) (set_fr s []) E Hd Hvc Hv2 Hh Ht (id_stop_dotted dot r k Hd Hk1)) as [s1 [H1 [Hi [Hn Hf]]]].
    assert (Hi' : inp (set_fr s1 (fr s)) = dotted dot r k) by exact Hi.
    destruct (IH (VStr (cells_str (c :: cs)) :: acc) (set_fr s1 (fr s)) Hi' Hv3 Hok') as [s2 [H2 [Hi2 [Hn2 Hf2]]]].
    exists s2. split.
    + eapply sr_more; [exact (L_w _ s true _ s1 H1)|].
      cbn [map rev]. rewrite <- app_assoc. exact H2.
    + unfold keeps. rewrite Hi2, Hn2, Hf2. cbn. rewrite Hn. cbn. auto.
Qed.

Lemma as_strs_map l : as_strs (VList (map VStr l)) = Some l.
Proof. cbn. induction l as [|x l IH]; cbn; [reflexivity|]. rewrite IH. reflexivity. Qed.

Definition sel2_body : pexpr := PSeq [PLabeled "first" (PRef "Identifier"); PLabeled "rest" (PStar (PRef "SelectorOrIndex"))].

(* C07, dotted spelling: name(.name)* parses to the selector whose parts are exactly the names *)
Theorem sem_selector_dotted dot i segs k s :
  crune dot = 46%Z -> sel_stop k ->
  inp s = fst i :: app (snd i) (dotted dot segs k) -> all_valid (app (snd i) (dotted dot segs k)) ->
  ident_ok i -> Forall ident_ok segs ->
  exists s', SEM (PRef "Selector") s
               (Done true (VSel {| stype := SelBexpr; spath := ident_str i :: map ident_str segs |}) s') /\ keeps s s' k.
Proof.
  intros Hd Hk E Hv [Hh Ht] Hok. destruct i as [c cs]. cbn [fst snd] in *.
  set (sA := set_fr (tk s) []). set (sB := set_fr (tk sA) []). set (sC := tk (tk sB)).
  set (sD := set_fr (tk sC) []).
  assert (ED : inp sD = c :: app cs (dotted dot segs k)) by exact E.
  destruct (sem_identifier c cs _ sD ED Hv Hh Ht (id_stop_dotted dot segs k Hd (proj1 Hk))) as [sI [HI [HiI [HnI HfI]]]].
  pose proof (L_labeled "first" _ sC true _ sI HI) as HL1. cbv iota in HL1.
  set (s1 := bind_label (set_fr sI (fr sC)) "first" (VStr (cells_str (c :: cs)))) in HL1.
  set (sE := set_fr (tk s1) []).
  assert (EE : inp (tk sE) = dotted dot segs k) by exact HiI.
  pose proof (proj2 (proj1 (Forall_app _ _ _) Hv)) as Hv2.
  destruct (semr_dotted dot k Hd Hk segs [] (tk sE) EE Hv2 Hok) as [sR [HR [HiR [HnR HfR]]]].
  rewrite app_nil_r, rev_involutive in HR.
  assert (HS : SEM (PStar (PRef "SelectorOrIndex")) sE (Done true (VList (map (fun i => VStr (ident_str i)) segs)) sR)).
  { apply sem_tick. apply sb_star. exact HR. }
  pose proof (L_labeled "rest" _ s1 true _ sR HS) as HL2. cbv iota in HL2.
  set (s2 := bind_label (set_fr sR (fr s1)) "rest" (VList (map (fun i => VStr (ident_str i)) segs))) in HL2.
  assert (Hseq : SEM sel2_body (tk sB) (Done true (VList (rev [VList (map (fun i => VStr (ident_str i)) segs); VStr (cells_str (c :: cs))])) s2)).
  { apply L_seq. eapply ss_ok; [exact HL1|]. eapply ss_ok; [exact HL2|]. apply ss_nil. }
  assert (Hact : SEM (PAction "Selector2" sel2_body) sB
                  (Done true (VSel {| stype := SelBexpr; spath := cells_str (c :: cs) :: map ident_str segs |}) s2)).
  { eapply L_action_ok; [exact Hseq|].
    change (action_sem "Selector2" (fr s2) (text_between (inp sB) (inp s2)))
      with (match as_strs (VList (map (fun i => VStr (ident_str i)) segs)) with
            | Some r => AVal (VSel {| stype := SelBexpr; spath := cells_str (c :: cs) :: r |}) | None => APanic end).
    rewrite <- (map_map ident_str VStr), as_strs_map. reflexivity. }
  exists (set_fr (set_fr s2 (fr (tk sA))) (fr s)). split.
  - eapply L_ref; [reflexivity|]. cbn [rexpr]. apply L_choice. apply sc_ok. exact (L_w _ (tk sA) true _ s2 Hact).
  - unfold keeps. cbn. rewrite HiR, HnR. cbn. rewrite HnI. auto.
Qed.
Print Assumptions sem_selector_dotted.
