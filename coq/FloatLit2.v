(* Every number literal of the bexpr grammar - an optional minus, digits, an optional "." digits - read as a float: the float parser
   model returns the bits of a nearest float of the width to the number the characters denote. Extends FloatLit.v (digits "." digits)
   to the sign and to literals without a fraction; parse_float_core is unfolded once into its two branches, both verbatim. *)
From Coq Require Import List ZArith String Ascii Bool NArith Lia.
Import ListNotations.
From Bexpr Require Import Base Strconv C02 RoundRat RoundGuards FloatLit.
Open Scope string_scope.
Open Scope Z_scope.

Definition is_hex_b (body : string) : bool :=
  match body with String z (String x (String _ _)) => (b2z z =? 48) && (lower (b2z x) =? 120) | _ => false end.

(* the hexadecimal branch of parse_float_core, verbatim *)
Definition hex_tail (body : string) (neg : bool) (p ebits emin emaxe : Z) : pres Z :=
  let zero neg := POk (float_bits neg (Some (0, emin)) p ebits) in
      let '(ip, ni, rest) := hexdigits_val (stail (stail body)) 0 0 in
      let '(fp, nf, rest2) :=
        match rest with
        | String dot r => if b2z dot =? 46 then hexdigits_val r 0 0 else (0, 0, rest)
        | "" => (0, 0, "") end in
      if (ni + nf =? 0) then PErr PSyntax else
      match rest2 with
      | String pc r =>
        if lower (b2z pc) =? 112 then
          match exp_part r with
          | None => PErr PSyntax
          | Some ex =>
            let mant := ip * 16 ^ nf + fp in
            let e2 := ex - 4 * nf in
            if mant =? 0 then zero neg
            else if 1100 <? e2 + Z.log2 mant then PErr PRange
            else if e2 + Z.log2 mant <? -1200 then zero neg
            else
              match hex_round mant e2 p emin emaxe with
              | None => PErr PRange
              | Some me => POk (float_bits neg (Some me) p ebits)
              end
          end
        else PErr PSyntax
      | "" => PErr PSyntax       (* a hexadecimal mantissa must have a p exponent *)
      end.

Lemma pfc_unfold64 c t :
  parse_float_core (String c t) 64 =
  let neg := b2z c =? 45 in
  let body := if (b2z c =? 43) || neg then t else String c t in
  if is_hex_b body then hex_tail body neg 53 11 (-1074) 971 else dec_tail body neg 53 11 (-1074) 971.
Proof. reflexivity. Qed.

Lemma pfc_unfold32 c t :
  parse_float_core (String c t) 32 =
  let neg := b2z c =? 45 in
  let body := if (b2z c =? 43) || neg then t else String c t in
  if is_hex_b body then hex_tail body neg 24 8 (-149) 104 else dec_tail body neg 24 8 (-149) 104.
Proof. reflexivity. Qed.

Definition frac_str (fo : option (list Z)) : string := match fo with Some fp => String "." (dstr fp) | None => "" end.
Definition frac_digits (fo : option (list Z)) : list Z := match fo with Some fp => fp | None => [] end.
Definition frac_ok (fo : option (list Z)) : Prop := Forall is_digit (frac_digits fo).
Definition sign_str (sg : bool) : string := if sg then "-" else "".
(* the text of a number literal *)
Definition number_text (sg : bool) (ip : list Z) (fo : option (list Z)) : string := sign_str sg ++ dstr ip ++ frac_str fo.

Lemma app_empty s : s ++ "" = s.
Proof. induction s as [|c s IH]; cbn [append]; [reflexivity|rewrite IH; reflexivity]. Qed.

Lemma is_hex_b_2nd z x t : lower (b2z x) <> 120 -> is_hex_b (String z (String x t)) = false.
Proof. intros H. destruct t; cbn [is_hex_b]; [reflexivity|]. rewrite (eqb_false _ _ H), andb_false_r. reflexivity. Qed.

Lemma digits_not_hex ip fo : ip <> [] -> Forall is_digit ip -> is_hex_b (dstr ip ++ frac_str fo) = false.
Proof.
  intros Hne Hip. destruct ip as [|d0 ip']; [contradiction|]. inversion Hip as [|? ? H0 Hip']; subst.
  destruct ip' as [|d1 ip'']; cbn [dstr append].
  - destruct fo as [fp|]; cbn [frac_str]; [|reflexivity].
    apply is_hex_b_2nd. rewrite dot_code. vm_compute. discriminate.
  - inversion Hip' as [|? ? H1 _]; subst. pose proof H1 as H1'. unfold is_digit in H1'.
    apply is_hex_b_2nd. rewrite (b2z_digit d1 H1), lower_small by lia. lia.
Qed.

Lemma dec_tail_number ip fo neg p ebits emin emaxe :
  ip <> [] -> Forall is_digit ip -> frac_ok fo ->
  let mant := dval (ip ++ frac_digits fo) 0 in
  let e10 := - Z.of_nat (List.length (frac_digits fo)) in
  dec_tail (dstr ip ++ frac_str fo) neg p ebits emin emaxe =
  if mant =? 0 then POk (float_bits neg (Some (0, emin)) p ebits)
  else if Z.log2 mant + 1 + 3 * e10 <? -1100 then POk (float_bits neg (Some (0, emin)) p ebits)
  else match dec_round mant e10 p emin emaxe with None => PErr PRange | Some me => POk (float_bits neg (Some me) p ebits) end.
Proof.
  intros Hne Hip Hfo. destruct fo as [fp|]; cbn [frac_str frac_digits]; [apply dec_tail_plain; assumption|].
  cbv zeta. rewrite app_nil_r. cbn [List.length]. change (- Z.of_nat 0) with 0.
  unfold dec_tail. rewrite (digits_val_dstr ip "" Hip I). cbv beta iota zeta.
  assert (Hlen : 0 < Z.of_nat (List.length ip)) by (destruct ip; [contradiction|cbn [List.length]; lia]).
  replace (0 + Z.of_nat (List.length ip) + 0 =? 0) with false by (symmetry; apply Z.eqb_neq; lia).
  change (10 ^ 0) with 1. replace (dval ip 0 * 1 + 0) with (dval ip 0) by lia. change (0 - 0) with 0.
  change (310 <? 0) with false. reflexivity.
Qed.

Lemma has_us_number ip fo : Forall is_digit ip -> frac_ok fo -> has_us (dstr ip ++ frac_str fo) = false.
Proof.
  intros Hip Hfo. destruct fo as [fp|]; cbn [frac_str]; [apply has_us_plain; assumption|].
  rewrite app_empty. induction Hip as [|d r Hd _ IH]; cbn [dstr has_us]; [reflexivity|].
  rewrite (b2z_digit d Hd). unfold is_digit in Hd. rewrite (eqb_false (48 + d) 95) by lia. exact IH.
Qed.

(* parse_float on a number literal is the decimal branch on its unsigned part *)
Lemma parse_float_number sg ip fo bits p ebits emin emaxe :
  (forall c t, parse_float_core (String c t) bits =
     let neg := b2z c =? 45 in let body := if (b2z c =? 43) || neg then t else String c t in
     if is_hex_b body then hex_tail body neg p ebits emin emaxe else dec_tail body neg p ebits emin emaxe) ->
  ip <> [] -> Forall is_digit ip -> frac_ok fo ->
  parse_float (number_text sg ip fo) bits = dec_tail (dstr ip ++ frac_str fo) sg p ebits emin emaxe.
Proof.
  intros U Hne Hip Hfo. pose proof (has_us_number ip fo Hip Hfo) as HU. pose proof (digits_not_hex ip fo Hne Hip) as HX.
  unfold number_text. set (u := dstr ip ++ frac_str fo) in *.
  assert (Hu : exists d0 t, is_digit d0 /\ u = String (digit_char d0) t).
  { destruct ip as [|d0 ip']; [contradiction|]. inversion Hip as [|? ? H0 _]; subst. exists d0, (dstr ip' ++ frac_str fo). split; [exact H0|reflexivity]. }
  destruct Hu as (d0 & t & H0 & Eu). pose proof H0 as H0'. unfold is_digit in H0'.
  assert (NW : forall w0 w, (b2z w0 < 48 \/ 57 < b2z w0) -> String.eqb (lower_str u) (String w0 w) = false).
  { intros w0 w Hw. rewrite Eu. cbn [lower_str]. rewrite (b2z_digit d0 H0), lower_small by lia. fold (digit_char d0).
    cbn [String.eqb]. rewrite (digit_char_not w0 d0 H0 Hw). reflexivity. }
  destruct sg; cbn [sign_str append].
  - (* a leading minus *)
    unfold parse_float. destruct (bits =? 32); cbv beta iota zeta; change (b2z "-" =? 45) with true; change (b2z "-" =? 43) with false;
      cbn [orb negb]; cbv beta iota zeta; rewrite !NW by (vm_compute; right; reflexivity); cbn [orb andb];
      unfold parse_float_num; cbn [has_us]; change (b2z "-" =? 95) with false; cbn [orb]; rewrite HU;
      rewrite U; cbv zeta; change (b2z "-" =? 45) with true; change (b2z "-" =? 43) with false; cbn [orb]; rewrite HX; reflexivity.
  - (* no sign: the first byte is a digit *)
    assert (E1 : (b2z (digit_char d0) =? 45) = false) by (rewrite (b2z_digit d0 H0); apply eqb_false; lia).
    assert (E2 : (b2z (digit_char d0) =? 43) = false) by (rewrite (b2z_digit d0 H0); apply eqb_false; lia).
    pose proof HU as HU'. pose proof HX as HX'. pose proof NW as NW'. rewrite Eu in HU', HX' |- *.
    unfold parse_float. destruct (bits =? 32); cbv beta iota zeta; rewrite E1, E2; cbn [orb negb]; cbv beta iota zeta;
      rewrite <- Eu; rewrite !NW by (vm_compute; right; reflexivity); cbn [orb andb];
      unfold parse_float_num; rewrite HU; rewrite Eu, U; cbv zeta; rewrite E1, E2; cbn [orb]; rewrite HX'; reflexivity.
Qed.

(* every number literal of the grammar, in either width: the bits returned are those of a nearest float to the number denoted *)
Theorem number_literal_nearest sg ip fo bits p ebits emin emaxe b :
  (bits = 64 /\ p = 53 /\ ebits = 11 /\ emin = -1074 /\ emaxe = 971) \/ (bits = 32 /\ p = 24 /\ ebits = 8 /\ emin = -149 /\ emaxe = 104) ->
  ip <> [] -> Forall is_digit ip -> frac_ok fo ->
  let mant := dval (ip ++ frac_digits fo) 0 in
  let den := 10 ^ Z.of_nat (List.length (frac_digits fo)) in
  0 < mant ->
  parse_float (number_text sg ip fo) bits = POk b ->
  exists m e, b = float_bits sg (Some (m, e)) p ebits /\
    (0 <= m < 2 ^ p /\ emin <= e <= emaxe /\ (e = emin \/ 2 ^ (p - 1) <= m)) /\
    (forall m' e2, 0 <= m' < 2 ^ p -> emin <= e2 -> D mant den m e * pn e2 <= D mant den m' e2 * pn e) /\
    (2 * D mant den m e = den * pp e -> Z.even m = true).
Proof.
  intros F Hne Hip Hfo mant den Hpos H.
  assert (Hden : 0 < den) by (apply Z.pow_pos_nonneg; lia).
  assert (Hfmt : is_format p emin emaxe) by (destruct F as [(_ & -> & _ & -> & ->)|(_ & -> & _ & -> & ->)]; [left|right]; repeat split).
  assert (U : forall c t, parse_float_core (String c t) bits =
     let neg := b2z c =? 45 in let body := if (b2z c =? 43) || neg then t else String c t in
     if is_hex_b body then hex_tail body neg p ebits emin emaxe else dec_tail body neg p ebits emin emaxe).
  { destruct F as [(-> & -> & -> & -> & ->)|(-> & -> & -> & -> & ->)]; [exact pfc_unfold64|exact pfc_unfold32]. }
  rewrite (parse_float_number sg ip fo bits p ebits emin emaxe U Hne Hip Hfo) in H.
  rewrite (dec_tail_number ip fo sg p ebits emin emaxe Hne Hip Hfo) in H. cbv zeta in H. fold mant in H.
  rewrite (eqb_false mant 0) in H by lia.
  set (e10 := - Z.of_nat (List.length (frac_digits fo))) in H.
  assert (R : exists m e, round_rat mant den p emin emaxe = Some (m, e) /\ b = float_bits sg (Some (m, e)) p ebits).
  { assert (Hr : dec_round mant e10 p emin emaxe = round_rat mant den p emin emaxe) by (unfold e10; rewrite dec_round_frac by lia; reflexivity).
    destruct (Z.ltb_spec (Z.log2 mant + 1 + 3 * e10) (-1100)) as [G|G].
    - pose proof (decimal_underflow_guard mant e10 p emin emaxe Hfmt Hpos G) as Z0. rewrite Hr in Z0.
      exists 0, emin. split; [exact Z0|congruence].
    - rewrite Hr in H. destruct (round_rat mant den p emin emaxe) as [[m e]|]; [|discriminate]. exists m, e. split; [reflexivity|congruence]. }
  destruct R as (m & e & R & ->). exists m, e.
  assert (Hp : 2 <= p) by (destruct F as [(_ & -> & _)|(_ & -> & _)]; lia).
  split; [reflexivity|split; [|split]].
  - apply (round_rat_canonical mant den p emin emaxe m e Hpos Hden ltac:(lia) R).
  - intros m' e2 Hm He2. apply (round_rat_nearest mant den p emin emaxe m e m' e2 Hpos Hden ltac:(lia) R Hm He2).
  - apply (round_rat_ties_to_even mant den p emin emaxe m e Hpos Hden Hp R).
Qed.

(* zero: every spelling of it reads as +0 or -0 *)
Theorem number_literal_zero sg ip fo bits p ebits emin emaxe :
  (bits = 64 /\ p = 53 /\ ebits = 11 /\ emin = -1074 /\ emaxe = 971) \/ (bits = 32 /\ p = 24 /\ ebits = 8 /\ emin = -149 /\ emaxe = 104) ->
  ip <> [] -> Forall is_digit ip -> frac_ok fo -> dval (ip ++ frac_digits fo) 0 = 0 ->
  parse_float (number_text sg ip fo) bits = POk (float_bits sg (Some (0, emin)) p ebits).
Proof.
  intros F Hne Hip Hfo Hz.
  assert (U : forall c t, parse_float_core (String c t) bits =
     let neg := b2z c =? 45 in let body := if (b2z c =? 43) || neg then t else String c t in
     if is_hex_b body then hex_tail body neg p ebits emin emaxe else dec_tail body neg p ebits emin emaxe).
  { destruct F as [(-> & -> & -> & -> & ->)|(-> & -> & -> & -> & ->)]; [exact pfc_unfold64|exact pfc_unfold32]. }
  rewrite (parse_float_number sg ip fo bits p ebits emin emaxe U Hne Hip Hfo).
  rewrite (dec_tail_number ip fo sg p ebits emin emaxe Hne Hip Hfo). cbv zeta. rewrite Hz. reflexivity.
Qed.

(* the hypotheses are met and the pieces compute *)
Example number_text_examples :
  number_text true [1; 5] None = "-15" /\ number_text false [0] (Some [1]) = "0.1" /\ number_text true [1; 2; 3] (Some [4; 5; 6]) = "-123.456".
Proof. repeat split. Qed.
Example minus_fifteen32 : parse_float "-15" 32 = POk 3245342720.
Proof. vm_compute. reflexivity. Qed.

(* as an equation: the literal is read as the single rounding of the number it denotes *)
Theorem number_literal_float sg ip fo bits p ebits emin emaxe :
  (bits = 64 /\ p = 53 /\ ebits = 11 /\ emin = -1074 /\ emaxe = 971) \/ (bits = 32 /\ p = 24 /\ ebits = 8 /\ emin = -149 /\ emaxe = 104) ->
  ip <> [] -> Forall is_digit ip -> frac_ok fo ->
  let mant := dval (ip ++ frac_digits fo) 0 in
  let den := 10 ^ Z.of_nat (List.length (frac_digits fo)) in
  0 < mant ->
  parse_float (number_text sg ip fo) bits =
  match round_rat mant den p emin emaxe with None => PErr PRange | Some me => POk (float_bits sg (Some me) p ebits) end.
Proof.
  intros F Hne Hip Hfo mant den Hpos.
  assert (Hfmt : is_format p emin emaxe) by (destruct F as [(_ & -> & _ & -> & ->)|(_ & -> & _ & -> & ->)]; [left|right]; repeat split).
  assert (U : forall c t, parse_float_core (String c t) bits =
     let neg := b2z c =? 45 in let body := if (b2z c =? 43) || neg then t else String c t in
     if is_hex_b body then hex_tail body neg p ebits emin emaxe else dec_tail body neg p ebits emin emaxe).
  { destruct F as [(-> & -> & -> & -> & ->)|(-> & -> & -> & -> & ->)]; [exact pfc_unfold64|exact pfc_unfold32]. }
  rewrite (parse_float_number sg ip fo bits p ebits emin emaxe U Hne Hip Hfo).
  rewrite (dec_tail_number ip fo sg p ebits emin emaxe Hne Hip Hfo). cbv zeta. fold mant.
  rewrite (eqb_false mant 0) by lia.
  set (e10 := - Z.of_nat (List.length (frac_digits fo))).
  assert (Hr : dec_round mant e10 p emin emaxe = round_rat mant den p emin emaxe) by (unfold e10; rewrite dec_round_frac by lia; reflexivity).
  destruct (Z.ltb_spec (Z.log2 mant + 1 + 3 * e10) (-1100)) as [G|G].
  - pose proof (decimal_underflow_guard mant e10 p emin emaxe Hfmt Hpos G) as Z0. rewrite Hr in Z0. rewrite Z0. reflexivity.
  - rewrite Hr. reflexivity.
Qed.
