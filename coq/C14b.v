From Coq Require Import List ZArith String Ascii Bool NArith Lia Permutation.
Import ListNotations.
From Bexpr Require Import Base Strconv Ast Univ Eval Props C05 Api Rel ApiMore.
Open Scope string_scope.

(* C14 for Filter: the order in which a map presents its entries does not matter — the kept entries are the same set,
   and the call is an error in one order exactly when it is in the other. *)
Section F.
Variable re : string -> string -> option bool.
Notation evaluate := (evaluate re).
Notation execute := (execute re).

Lemma filter_map_error ev et l : forall acc,
  forallb (fun kv => clean (evaluate ev (r_interface (Some (et, snd kv))))) l = false ->
  exists r, filter_map re ev et l acc = inr r.
Proof.
  induction l as [|[k x] l IH]; intros acc H; cbn [filter_map forallb snd] in *; [discriminate|].
  destruct (evaluate ev (r_interface (Some (et, x)))) as [[|] [e|]|]; cbn [clean andb] in H; try (eexists; reflexivity).
  - apply IH. exact H.
  - apply IH. exact H.
Qed.

Lemma forallb_perm {A} (p : A -> bool) l l' : Permutation l l' -> forallb p l = forallb p l'.
Proof.
  induction 1 as [|x l l' _ IH|x y l|l l' l'' _ IH1 _ IH2]; cbn; [reflexivity| rewrite IH; reflexivity| |congruence].
  destruct (p x), (p y); reflexivity.
Qed.

Lemma filter_perm {A} (p : A -> bool) l l' : Permutation l l' -> Permutation (filter p l) (filter p l').
Proof.
  induction 1 as [|x l l' _ IH|x y l|l l' l'' _ IH1 _ IH2]; cbn; [constructor| | |eapply Permutation_trans; eassumption].
  - destruct (p x); [constructor; exact IH| exact IH].
  - destruct (p x), (p y); try apply Permutation_refl. constructor.
Qed.

Definition is_failure (r : exres) : Prop := match r with FErr _ | FPanic => True | _ => False end.

Theorem c14_filter_order_free (ev : evaluator) t n ka kb : kind_of_type t = KMap -> Permutation ka kb ->
  (exists ya yb, execute (Some ev) (Some (t, VMap n ka)) = FMap t ya /\ execute (Some ev) (Some (t, VMap n kb)) = FMap t yb /\ Permutation ya yb)
  \/ (is_failure (execute (Some ev) (Some (t, VMap n ka))) /\ is_failure (execute (Some ev) (Some (t, VMap n kb)))).
Proof.
  intros Hk Hp.
  set (c := fun kv : gval * gval => clean (evaluate ev (r_interface (Some (elem_type t, snd kv))))).
  pose proof (forallb_perm c ka kb Hp) as Hc.
  destruct (forallb c ka) eqn:Ea.
  - left. symmetry in Hc. do 2 eexists. split; [apply (c17_map re ev t n ka Hk Ea)|]. split; [apply (c17_map re ev t n kb Hk Hc)|].
    apply filter_perm. exact Hp.
  - right. symmetry in Hc. cbn [Api.execute]. rewrite Hk.
    destruct (filter_map_error ev (elem_type t) ka [] Ea) as [ra ->]. destruct (filter_map_error ev (elem_type t) kb [] Hc) as [rb ->].
    split; [destruct ra| destruct rb]; exact I.
Qed.
End F.
Print Assumptions c14_filter_order_free.
