From Coq Require Import List ZArith String Ascii Bool.
Import ListNotations.
Open Scope string_scope.

Inductive matchop := OpEq | OpNeq | OpIn | OpNotIn | OpIsEmpty | OpIsNotEmpty | OpMatches | OpNotMatches.
Inductive binop := BAnd | BOr.
Inductive seltype := SelBexpr | SelJsonPtr.
Record selector := { stype : seltype; spath : list string }.
Inductive bindmode := BDefault | BIndex | BValue | BIndexAndValue.
Record binding := { bmode : bindmode; bdefault : string; bindex : string; bvalue : string }.
Inductive collop := CAll | CAny.
Inductive expr :=
| ENot (e : expr)
| EBin (op : binop) (l r : expr)
| EMatch (s : selector) (op : matchop) (v : option string)
| EColl (op : collop) (s : selector) (b : binding) (inner : expr).
