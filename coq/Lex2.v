From Coq Require Import List ZArith String Ascii Bool NArith Lia.
Import ListNotations.
From Bexpr Require Import Base Ast Unicode Peg Typing Actions GoGrammar Sem Term Lex.
Open Scope string_scope.

Notation SEMC := (semc go_grammar action_sem pred_sem).
Notation SEMS := (sems go_grammar action_sem pred_sem).

(* ---- packaging lemmas: one per wrapper, states explicit ---- *)
Lemma L_ref n ru s ok v s' : find_rule go_grammar n = Some ru ->
  SEM (rexpr ru) (set_fr (tk s) []) (Done ok v s') -> SEM (PRef n) s (Done ok v (set_fr s' (fr s))).
Proof.
  intros Hf H. apply sem_tick. eapply sb_ref; [exact Hf|].
  change (Done ok v (set_fr s' (fr s))) with (in_frame (tk s) (Done ok v s')). apply sw. exact H.
Qed.

Lemma L_labeled l b s ok v s' : SEM b (set_fr (tk s) []) (Done ok v s') ->
  SEM (PLabeled l b) s (Done ok v (if ok then bind_label (set_fr s' (fr s)) l v else set_fr s' (fr s))).
Proof.
  intros H. apply sem_tick.
  pose proof (sb_labeled go_grammar action_sem pred_sem l b (tk s) _ (sw _ _ _ b (tk s) _ H)) as H1.
  exact H1.
Qed.

Lemma L_action_ok id b s v s' v' : SEM b (tk s) (Done true v s') ->
  action_sem id (fr s') (text_between (inp s) (inp s')) = AVal v' -> SEM (PAction id b) s (Done true v' s').
Proof.
  intros H Ha. apply sem_tick.
  pose proof (sb_action go_grammar action_sem pred_sem id b (tk s) _ H) as H1.
  cbn [bindr] in H1. unfold k_action in H1. change (inp (tk s)) with (inp s) in H1. rewrite Ha in H1. exact H1.
Qed.

Lemma L_action_fail id b s v s' : SEM b (tk s) (Done false v s') -> SEM (PAction id b) s (Done false v s').
Proof.
  intros H. apply sem_tick. exact (sb_action go_grammar action_sem pred_sem id b (tk s) _ H).
Qed.

Lemma L_seq es s r : SEMS es (inp s) [] (tk s) r -> SEM (PSeq es) s r.
Proof. intros H. apply sem_tick. apply sb_seq. exact H. Qed.

Lemma L_choice alts s r : SEMC alts (tk s) r -> SEM (PChoice alts) s r.
Proof. intros H. apply sem_tick. apply sb_choice. exact H. Qed.

Lemma L_w e s ok v s' : SEM e (set_fr s []) (Done ok v s') -> SEMW e s (Done ok v (set_fr s' (fr s))).
Proof. intros H. exact (sw _ _ _ e s _ H). Qed.

(* ---- clean failure: no input consumed, no error recorded, frame kept ---- *)
Definition clean (s s' : st) : Prop := inp s' = inp s /\ nerr s' = nerr s /\ fr s' = fr s.
Definition fails (P : list cell -> Prop) (e : pexpr) : Prop :=
  forall s, P (inp s) -> exists v s', SEM e s (Done false v s') /\ clean s s'.

Definition head_not (c : Z) (i : list cell) : Prop := match i with [] => True | x :: _ => crune x <> c end.

Lemma fails_lit1 c : fails (head_not c) (PLit [c] false).
Proof.
  intros s H. set (s1 := tk s).
  assert (Hb : body go_grammar action_sem pred_sem no_rec 0 (PLit [c] false) s1 = Done false VNil (set_inp s1 (inp s1))).
  { cbn [body lit_go]. change (inp s1) with (inp s). destruct (inp s) as [|x r]; [reflexivity|].
    cbn in H. destruct (Z.eqb_spec (crune x) c) as [E|E]; [contradiction|]. reflexivity. }
  exists VNil, (set_inp s1 (inp s1)). split.
  - apply sem_tick. fold s1. rewrite <- Hb. apply sb_leaf. reflexivity.
  - unfold clean. cbn. auto.
Qed.

Lemma fails_seq_first P a es : fails P a -> fails P (PSeq (a :: es)).
Proof.
  intros Ha s H. destruct (Ha (tk s) H) as [v [s1 [H1 [Hi [Hn Hf]]]]].
  exists VNil, (set_inp s1 (inp s)). split.
  - apply L_seq. eapply ss_fail. exact H1.
  - unfold clean. cbn. auto.
Qed.

Lemma fails_action P id b : fails P b -> fails P (PAction id b).
Proof.
  intros Hb s H. destruct (Hb (tk s) H) as [v [s1 [H1 Hc]]].
  exists v, s1. split; [apply L_action_fail; exact H1| exact Hc].
Qed.

Lemma fails_labeled P l b : fails P b -> fails P (PLabeled l b).
Proof.
  intros Hb s H. destruct (Hb (set_fr (tk s) []) H) as [v [s1 [H1 [Hi [Hn Hf]]]]].
  exists v, (set_fr s1 (fr s)). split.
  - exact (L_labeled l b s false v s1 H1).
  - unfold clean. cbn. auto.
Qed.

Lemma fails_ref P n ru : find_rule go_grammar n = Some ru -> fails P (rexpr ru) -> fails P (PRef n).
Proof.
  intros Hf Hb s H. destruct (Hb (set_fr (tk s) []) H) as [v [s1 [H1 [Hi [Hn Hfr]]]]].
  exists v, (set_fr s1 (fr s)). split.
  - exact (L_ref n ru s false v s1 Hf H1).
  - unfold clean. cbn. auto.
Qed.

Lemma fails_choice P alts : Forall (fails P) alts -> fails P (PChoice alts).
Proof.
  intros Ha s H.
  assert (Hc : forall s0, P (inp s0) -> exists v s', SEMC alts s0 (Done false v s') /\ clean s0 s').
  { clear s H. induction Ha as [|a alts Hfa _ IH]; intros s0 H0.
    - exists VNil, s0. split; [apply sc_nil| unfold clean; auto].
    - destruct (Hfa (set_fr s0 []) H0) as [v [s1 [H1 [Hi [Hn Hf]]]]].
      assert (H2 : P (inp (set_fr s1 (fr s0)))) by (cbn; rewrite Hi; exact H0).
      destruct (IH _ H2) as [v2 [s2 [H3 [Hi2 [Hn2 Hf2]]]]].
      exists v2, s2. split.
      + eapply sc_next; [exact (L_w a s0 false v s1 H1)| exact H3].
      + unfold clean. rewrite Hi2, Hn2, Hf2. cbn. auto. }
  destruct (Hc (tk s) H) as [v [s' [H1 H2]]].
  exists v, s'. split; [apply L_choice; exact H1| exact H2].
Qed.

(* a SelectorOrIndex cannot start on anything but a dot or an opening bracket *)
Definition no_dot_no_bracket (i : list cell) : Prop := head_not 46 i /\ head_not 91 i.

Lemma fails_weaken (P Q : list cell -> Prop) e : (forall i, Q i -> P i) -> fails P e -> fails Q e.
Proof. intros HPQ H s Hq. exact (H s (HPQ _ Hq)). Qed.

Lemma fails_index_expression : fails no_dot_no_bracket (PRef "IndexExpression").
Proof.
  eapply fails_ref; [reflexivity|]. cbn [rexpr].
  apply fails_choice. repeat constructor.
  - apply fails_action. apply fails_seq_first. eapply fails_weaken; [|apply fails_lit1]. intros i [_ H]; exact H.
  - apply fails_seq_first. eapply fails_weaken; [|apply fails_lit1]. intros i [_ H]; exact H.
  - apply fails_seq_first. eapply fails_weaken; [|apply fails_lit1]. intros i [_ H]; exact H.
Qed.

Lemma fails_selector_or_index : fails no_dot_no_bracket (PRef "SelectorOrIndex").
Proof.
  eapply fails_ref; [reflexivity|]. cbn [rexpr].
  apply fails_choice. repeat constructor.
  - apply fails_action. apply fails_seq_first. eapply fails_weaken; [|apply fails_lit1]. intros i [H _]; exact H.
  - apply fails_action. apply fails_labeled. apply fails_index_expression.
  - apply fails_action. apply fails_seq_first. eapply fails_weaken; [|apply fails_lit1]. intros i [H _]; exact H.
Qed.
Print Assumptions fails_selector_or_index.
