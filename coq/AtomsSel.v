From Coq Require Import List ZArith String Ascii Bool NArith Lia.
Import ListNotations.
From Bexpr Require Import Base Ast Unicode Peg Typing Actions GoGrammar Sem Term Lex Lex2 Lex3 Calc Calc2 Skel Top Atoms StrLit AtomsEq Spell C07 Ptr Coll AtomsIn Values Sels AtomsOp AtomsNotIn.
Open Scope string_scope.

(* The is-empty and membership atoms over a selector in ANY spelling (Sels.selr). *)

Lemma astop_sstop k : astop k -> sstop k.
Proof.
  destruct k as [|c k]; [intros _; repeat split|]. intros [H|[H|H]].
  - apply sstop_ws. exact H.
  - repeat split; cbn; rewrite H; try reflexivity; discriminate.
  - repeat split; cbn; rewrite H; try reflexivity; discriminate.
Qed.

Lemma op_tail_sstop neg k : sstop (op_tail neg k).
Proof. apply sstop_ws. exact is_ws_sp. Qed.

(* ---- sel is [not] empty ---- *)
Record satom := { sa_sr : selr; sa_neg : bool }.
Definition sa_exp (a : satom) : expr := EMatch (s_val (sa_sr a)) (op_of (sa_neg a)) None.
Definition sa_txt (a : satom) : list cell := app (s_txt (sa_sr a)) (op_tail (sa_neg a) []).
Lemma sa_txt_app a k : app (sa_txt a) k = app (s_txt (sa_sr a)) (op_tail (sa_neg a) k).
Proof. unfold sa_txt. rewrite <- app_assoc, op_tail_app. reflexivity. Qed.

Lemma sa_parse a k : astop k -> spec (PRef "MatchExpression") (app (sa_txt a) k) (VExpr (sa_exp a)) k.
Proof.
  intros _. rewrite sa_txt_app.
  pose proof (s_spec (sa_sr a) (op_tail (sa_neg a) k) (op_tail_sstop _ _)) as Hsel.
  eapply ref_ok; [reflexivity|]. cbn [rexpr]. apply spec_j. apply choice_ok.
  apply specc_next.
  - eapply fref; [reflexivity|]. cbn [rexpr]. apply faction. apply fseq.
    eapply fseqs_later; [apply lab_ok; exact Hsel|].
    apply fseqs_here. apply flabeled. apply op_value_fails.
  - apply specc_here. apply spec_j. eapply ref_ok; [reflexivity|]. cbn [rexpr].
    eapply action_ok.
    + apply seq_ok. eapply seqs_cons; [apply lab_ok; exact Hsel|].
      eapply seqs_cons; [apply lab_ok; apply op_spec|]. apply seqs_nil.
    + intros G. reflexivity.
Qed.
Lemma sa_not_paren a k : head_not 40 (app (sa_txt a) k).
Proof. rewrite sa_txt_app. apply s_head_not_paren. Qed.
Lemma sa_head a k : ws_free (app (sa_txt a) k).
Proof. rewrite sa_txt_app. apply s_head_free. Qed.
Lemma sa_not_not a k : fspecj not_alt1 (app (sa_txt a) k).
Proof. rewrite sa_txt_app. apply s_head_not_not. apply op_tail_sstop. Qed.

(* ---- value [not] in sel: the value on the left is a literal in any style on which Selector fails at once -
        double-quoted (not starting with '/'), back-quoted, an integer or a number (instances: lval_of_qlit, lval_of_rlit here;
        lval_of_int, lval_of_number in AtomsLeft.v) ---- *)
Record lval := {
  lv_v : vlit;
  lv_selfails : forall k, fspecj (PRef "Selector") (app (v_txt lv_v) k);
  lv_not_paren : forall k, head_not 40 (app (v_txt lv_v) k);
  lv_not_n : forall k, head_not 110 (app (v_txt lv_v) k) }.

Definition lval_of_qlit (l : qlit) : lval.
Proof.
  refine {| lv_v := of_qlit l |}.
  - intros k. cbn [of_qlit v_txt]. rewrite q_txt_app. unfold l_cells. cbn [app].
    exact (selector_fails_on_quote (l_q l) (l_x l) _ (l_hq l) (l_hx l) (Forall_inv (l_body l))).
  - intros k. cbn [of_qlit v_txt]. rewrite q_txt_app. cbn. rewrite (l_hq l). discriminate.
  - intros k. cbn [of_qlit v_txt]. rewrite q_txt_app. cbn. rewrite (l_hq l). discriminate.
Defined.

Definition lval_of_rlit (l : rlit) : lval.
Proof.
  refine {| lv_v := of_rlit l |}.
  - intros k. cbn [of_rlit v_txt app]. exact (selector_fails_on_bq (r_q l) _ (r_hq l)).
  - intros k. cbn [of_rlit v_txt app]. cbn. rewrite (r_hq l). discriminate.
  - intros k. cbn [of_rlit v_txt app]. cbn. rewrite (r_hq l). discriminate.
Defined.

Record matom := { m_lit : lval; m_lay : oplay; m_sr : selr; m_neg : bool }.
Definition m_exp (a : matom) : expr := EMatch (s_val (m_sr a)) (if m_neg a then OpNotIn else OpIn) (Some (v_lit (lv_v (m_lit a)))).
Definition m_optext (neg : bool) (l : oplay) (rest : list cell) : list cell :=
  if neg then n_optext l rest else o_x1 l :: app (o_a1 l) (app K_in (o_x2 l :: app (o_a2 l) rest)).
Definition m_txtK (a : matom) (k : list cell) : list cell :=
  app (v_txt (lv_v (m_lit a))) (m_optext (m_neg a) (m_lay a) (app (s_txt (m_sr a)) k)).
Definition m_txt (a : matom) : list cell := m_txtK a [].
Lemma m_txt_app a k : app (m_txt a) k = m_txtK a k.
Proof.
  unfold m_txt, m_txtK, m_optext, n_optext. rewrite <- app_assoc. f_equal.
  destruct (m_neg a); repeat (cbn [app]; rewrite <- ?app_assoc); rewrite ?app_nil_r; reflexivity.
Qed.

Lemma m_optext_astop neg l rest : astop (m_optext neg l rest).
Proof. unfold m_optext, n_optext. destruct neg; cbn; left; exact (o_h1 l). Qed.

Lemma m_parse a k : astop k -> spec (PRef "MatchExpression") (app (m_txt a) k) (VExpr (m_exp a)) k.
Proof.
  intros Hk. rewrite m_txt_app. unfold m_txtK.
  set (l := m_lay a). set (K1 := m_optext (m_neg a) l (app (s_txt (m_sr a)) k)).
  pose proof (lv_selfails (m_lit a) K1) as Hself.
  pose proof (s_spec (m_sr a) k (astop_sstop k Hk)) as Hsel.
  pose proof (s_head_free (m_sr a) k) as Hfree.
  eapply ref_ok; [reflexivity|]. cbn [rexpr]. apply spec_j. apply choice_ok.
  apply specc_next.
  { eapply fref; [reflexivity|]. cbn [rexpr]. apply faction. apply fseq. apply fseqs_here. apply flabeled. exact Hself. }
  apply specc_next.
  { eapply fref; [reflexivity|]. cbn [rexpr]. apply faction. apply fseq. apply fseqs_here. apply flabeled. exact Hself. }
  apply specc_here. apply spec_j. eapply ref_ok; [reflexivity|]. cbn [rexpr]. apply spec_j. apply choice_ok. apply specc_here.
  eapply action_ok with (v' := VExpr (m_exp a)).
  - apply seq_ok.
    eapply seqs_cons; [apply lab_ok; apply (v_spec (lv_v (m_lit a)) K1 (m_optext_astop _ _ _))|].
    eapply seqs_cons; [|eapply seqs_cons; [apply lab_ok; exact Hsel| apply seqs_nil]].
    apply (lab_ok "operator" _ _ (VMOp (if m_neg a then OpNotIn else OpIn))). apply choice_ok. unfold K1, m_optext. destruct (m_neg a).
    + apply specc_next.
      { eapply fref; [reflexivity|]. cbn [rexpr]. apply faction. apply fseq. unfold n_optext.
        apply kw_fails; [exact (o_h1 l)| exact (o_h1' l)| reflexivity| cbn; discriminate]. }
      apply specc_here. apply spec_j. eapply ref_ok; [reflexivity|]. cbn [rexpr]. eapply action_ok with (v' := VMOp OpNotIn).
      { apply seq_ok. unfold n_optext.
        eapply seqs_cons; [apply (ws_plus_ok (o_x1 l) (o_a1 l) _ (o_h1 l) (o_h1' l)); reflexivity|].
        eapply seqs_cons; [apply (lit_ok [110; 111; 116]%Z K_not _ eq_refl)|].
        eapply seqs_cons; [apply (ws_plus_ok (o_x2 l) (o_a2 l) _ (o_h2 l) (o_h2' l)); reflexivity|].
        eapply seqs_cons; [apply (lit_ok [105; 110]%Z K_in _ eq_refl)|].
        eapply seqs_cons; [apply (ws_plus_ok (o_x3 l) (o_a3 l) _ (o_h3 l) (o_h3' l)); exact Hfree|]. apply seqs_nil. }
      intros G. reflexivity.
    + apply specc_here. apply spec_j. eapply ref_ok; [reflexivity|]. cbn [rexpr]. eapply action_ok with (v' := VMOp OpIn).
      { apply seq_ok.
        eapply seqs_cons; [apply (ws_plus_ok (o_x1 l) (o_a1 l) _ (o_h1 l) (o_h1' l)); reflexivity|].
        eapply seqs_cons; [apply (lit_ok [105; 110]%Z K_in _ eq_refl)|].
        eapply seqs_cons; [apply (ws_plus_ok (o_x2 l) (o_a2 l) _ (o_h2 l) (o_h2' l)); exact Hfree|]. apply seqs_nil. }
      intros G. reflexivity.
  - intros G. unfold m_exp. destruct (m_neg a); reflexivity.
Qed.

Lemma m_not_paren a k : head_not 40 (app (m_txt a) k).
Proof. rewrite m_txt_app. unfold m_txtK. apply lv_not_paren. Qed.
Lemma m_head a k : ws_free (app (m_txt a) k).
Proof. rewrite m_txt_app. unfold m_txtK. apply (v_free (lv_v (m_lit a))). Qed.
Lemma m_not_not a k : fspecj not_alt1 (app (m_txt a) k).
Proof.
  rewrite m_txt_app. unfold m_txtK. apply faction. apply fseq. apply fseqs_here.
  refine (fails_f (head_not 110) _ _ (fails_lit 110 [111; 116]%Z) _). apply lv_not_n.
Qed.

(* ---- the final atom universe: every match operator, every selector spelling ---- *)
Definition atomF := (satom + opatom + matom)%type.
Definition atxtF (a : atomF) : list cell := match a with inl (inl a) => sa_txt a | inl (inr a) => p_txt a | inr a => m_txt a end.
Definition aexpF (a : atomF) : expr := match a with inl (inl a) => sa_exp a | inl (inr a) => p_exp a | inr a => m_exp a end.

Theorem c16_final_parse input e t w0 w1 :
  rOr atomF atxtF aexpF chdr h_txt h_op h_sel h_bind e t -> Forall is_ws w0 -> Forall is_ws w1 ->
  utf8_cells input = app w0 (app t w1) -> all_valid (utf8_cells input) ->
  exists f0, forall f, (f0 <= f)%nat -> exists n, parse go_grammar None action_sem pred_sem f input = Accepted (VExpr e) n.
Proof.
  apply (c16_parse_round_trip atomF atxtF aexpF).
  - intros [[a|a]|a] k; [apply sa_parse| apply p_parse| apply m_parse].
  - intros [[a|a]|a] k; [apply sa_not_paren| apply p_not_paren| apply m_not_paren].
  - intros [[a|a]|a] k; [apply sa_not_not| apply p_not_not| apply m_not_not].
  - intros [[a|a]|a] k; [apply sa_head| apply p_head| apply m_head].
  - apply hdr_parse_c.
  - apply hdr_and_fails_c.
  - apply hdr_head_c.
Qed.
Print Assumptions c16_final_parse.
