(* Property C12 (partial) - one Evaluator or Filter can be shared by concurrent goroutines. Logic part: programs over shared cells under an arbitrary interleaving; write-free programs neither change the store nor conflict. The runtime part (no other shared writes in the Go code, Go memory model) is tied by the race detector, not proved. Statements only (proofs: Conc.v). *)
From Coq Require Import List String ZArith NArith Bool Permutation. From Bexpr Require Import Base Strconv Ast Univ Eval Conc. Import ListNotations.

Theorem store_unchanged :
  forall (loc val A : Type) (loc_eqb : loc -> loc -> bool) (sched : list nat) (s : store loc val) (ps : list (prog loc val A)),
  Forall (write_free loc val A) ps ->
  fst (run_sched loc val A loc_eqb sched s ps) = s /\ Forall (write_free loc val A) (snd (run_sched loc val A loc_eqb sched s ps)).
Proof. exact Conc.store_unchanged. Qed.
Print Assumptions store_unchanged.

Theorem interleaving_irrelevant :
  forall (loc val A : Type) (loc_eqb : loc -> loc -> bool) (sched : list nat) (s : store loc val) (ps : list (prog loc val A)) (j : nat) (a : A),
  Forall (write_free loc val A) ps ->
  nth_error (snd (run_sched loc val A loc_eqb sched s ps)) j = Some (Ret loc val A a) ->
  exists (p : prog loc val A) (fuel : nat), nth_error ps j = Some p /\ run_seq loc val A loc_eqb fuel s p = Some a.
Proof. exact Conc.interleaving_irrelevant. Qed.
Print Assumptions interleaving_irrelevant.

Theorem no_write_access :
  forall (loc val A : Type) (loc_eqb : loc -> loc -> bool) (p : prog loc val A),
  write_free loc val A p ->
  forall (fuel : nat) (s : store loc val), forallb (fun a : access loc => negb (is_write loc a)) (trace loc val A loc_eqb fuel s p) = true.
Proof. exact Conc.no_write_access. Qed.
Print Assumptions no_write_access.

