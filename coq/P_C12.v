(* Property C12 (partial) - one Evaluator or Filter can be shared by concurrent goroutines. Logic part: programs over shared cells under an arbitrary interleaving; write-free programs neither change the store nor conflict. The runtime part (no other shared writes in the Go code, Go memory model) is tied by the race detector, not proved. Statements only (proofs: Conc.v). *)
From Coq Require Import List String ZArith NArith Bool Permutation. From Bexpr Require Import Base Strconv Ast Univ Eval Conc. Import ListNotations.

Theorem store_unchanged :
  forall (loc val A : Type) (loc_eqb : loc -> loc -> bool) (sched : list nat) (s : store loc val) (ps : list (prog loc val A)),
  Forall (write_free loc val A) ps ->
  fst (run_sched loc val A loc_eqb sched s ps) = s /\ Forall (write_free loc val A) (snd (run_sched loc val A loc_eqb sched s ps)).
Proof. exact Conc.store_unchanged. Qed.
Print Assumptions store_unchanged.

Theorem interleaving_irrelevant :
  forall (loc val A : Type) (loc_eqb : loc -> loc -> bool) (sched : list nat) (s : store loc val) (ps : list (prog loc val A)) (j : nat) (a : A),
  Forall (write_free loc val A) ps ->
  nth_error (snd (run_sched loc val A loc_eqb sched s ps)) j = Some (Ret loc val A a) ->
  exists (p : prog loc val A) (fuel : nat), nth_error ps j = Some p /\ run_seq loc val A loc_eqb fuel s p = Some a.
Proof. exact Conc.interleaving_irrelevant. Qed.
Print Assumptions interleaving_irrelevant.

Theorem no_write_access :
  forall (loc val A : Type) (loc_eqb : loc -> loc -> bool) (p : prog loc val A),
  write_free loc val A p ->
  forall (fuel : nat) (s : store loc val), forallb (fun a : access loc => negb (is_write loc a)) (trace loc val A loc_eqb fuel s p) = true.
Proof. exact Conc.no_write_access. Qed.
Print Assumptions no_write_access.


(* ---- instantiation: Evaluate / Execute as programs over shared cells (C12b.v) ---- *)
From Coq Require Import List String ZArith NArith Bool. From Bexpr Require Import Base Strconv Ast Univ Eval Api Conc C12b GoTables TieWrites. Import ListNotations.

Theorem evaluate_write_free :
  forall (re : string -> string -> option bool) (ev : evaluator) (d : iface), write_free cell unit outcome (evaluate_prog re ev d).
Proof. exact C12b.evaluate_write_free. Qed.
Print Assumptions evaluate_write_free.

Theorem execute_write_free :
  forall (re : string -> string -> option bool) (ev : evaluator) (d : iface), write_free cell unit exres (execute_prog re ev d).
Proof. exact C12b.execute_write_free. Qed.
Print Assumptions execute_write_free.

Theorem evaluate_prog_result :
  forall (re : string -> string -> option bool) (ev : evaluator) (d : iface) (s : store cell unit),
  exists fuel : nat, run_seq cell unit outcome cell_eqb fuel s (evaluate_prog re ev d) = Some (evaluate re ev d).
Proof. exact C12b.evaluate_prog_result. Qed.
Print Assumptions evaluate_prog_result.

Theorem concurrent_evaluate :
  forall (re : string -> string -> option bool) (sched : list nat) (s : store cell unit) (calls : list (evaluator * iface)),
  let ps := map (fun c : evaluator * iface => evaluate_prog re (fst c) (snd c)) calls in
  fst (run_sched cell unit outcome cell_eqb sched s ps) = s /\
  (forall (j : nat) (a : outcome),
   nth_error (snd (run_sched cell unit outcome cell_eqb sched s ps)) j = Some (Ret cell unit outcome a) ->
   exists (ev : evaluator) (d : iface), nth_error calls j = Some (ev, d) /\ a = evaluate re ev d).
Proof. exact C12b.concurrent_evaluate. Qed.
Print Assumptions concurrent_evaluate.

Theorem evaluate_no_write :
  forall (re : string -> string -> option bool) (ev : evaluator) (d : iface) (fuel : nat) (s : store cell unit),
  forallb (fun a : access cell => negb (is_write cell a)) (trace cell unit outcome cell_eqb fuel s (evaluate_prog re ev d)) = true.
Proof. exact C12b.evaluate_no_write. Qed.
Print Assumptions evaluate_no_write.

Theorem execute_no_write :
  forall (re : string -> string -> option bool) (ev : evaluator) (d : iface) (fuel : nat) (s : store cell unit),
  forallb (fun a : access cell => negb (is_write cell a)) (trace cell unit exres cell_eqb fuel s (execute_prog re ev d)) = true.
Proof. exact C12b.execute_no_write. Qed.
Print Assumptions execute_no_write.

Theorem unrepaired_evaluate_writes_shared_cell :
  let re := fun _ _ : string => Some true in
  let t := trace cell unit outcome cell_eqb 10 (fun _ : cell => tt) (evaluate_prog_unrepaired re race_witness_ev None) in
  existsb (fun a : access cell => match a with
                                  | AWr _ (LConv "a+") => true
                                  | _ => false
                                  end) t = true /\
  existsb (fun a : access cell => match a with
                                  | ARd _ (LConv "a+") => true
                                  | _ => false
                                  end) t = true.
Proof. exact C12b.unrepaired_evaluate_writes_shared_cell. Qed.
Print Assumptions unrepaired_evaluate_writes_shared_cell.

Theorem evaluation_path_writes_nothing_shared :
  evaluation_path_shared_writes = [].
Proof. exact TieWrites.evaluation_path_writes_nothing_shared. Qed.
Print Assumptions evaluation_path_writes_nothing_shared.

Theorem evaluation_path_is_populated :
  forallb (fun f => existsb (String.eqb f) go_eval_reachable) ["Evaluate"; "Execute"; "evaluate"] = true.
Proof. exact TieWrites.evaluation_path_is_populated. Qed.
Print Assumptions evaluation_path_is_populated.

Theorem no_mutable_package_state :
  forallb (fun v => match v with (_, _, c) => String.eqb c "fixed" || String.eqb c "unwritten" end) go_package_vars = true.
Proof. exact TieWrites.no_mutable_package_state. Qed.
Print Assumptions no_mutable_package_state.

Theorem evaluation_path_mutates_only_its_own_containers :
  evaluation_path_shared_calls = [].
Proof. exact TieWrites.evaluation_path_mutates_only_its_own_containers. Qed.
Print Assumptions evaluation_path_mutates_only_its_own_containers.

Theorem evaluation_path_builds_fresh_containers :
  existsb (fun c => existsb (String.eqb (c_fn c)) go_eval_reachable && String.eqb (c_class c) "fresh") go_mutating_calls = true.
Proof. exact TieWrites.evaluation_path_builds_fresh_containers. Qed.
Print Assumptions evaluation_path_builds_fresh_containers.

(* a call's outcome is a function of the evaluator and the datum only if the entries of a map are visited in an order the map's
   contents fix: the code sorts the enumerated keys by byte order wherever it enumerates a map on the evaluation path *)
From Bexpr Require Import GoTables TieOrder.
Theorem c12_code_visits_maps_in_key_order :
  forallb (fun r => negb (String.eqb (iter_file r) "evaluate.go") || String.eqb (iter_class r) "sorted-bytewise") GoTables.go_map_iteration = true
  /\ existsb (fun r => String.eqb (iter_file r) "evaluate.go" && String.eqb (iter_class r) "sorted-bytewise") GoTables.go_map_iteration = true.
Proof. exact (conj TieOrder.evaluation_visits_maps_in_key_order TieOrder.evaluation_enumerates_a_map). Qed.
Print Assumptions c12_code_visits_maps_in_key_order.
