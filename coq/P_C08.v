(* Property C08 - hidden and unexported struct fields never influence any result. Statements only (proofs: Rel.v, ApiMore.v, Glue.v). *)
From Coq Require Import List String ZArith NArith Bool Permutation. From Bexpr Require Import Base Strconv Ast Univ Eval Rel Api ApiMore C08b. Import ListNotations.

Theorem c08_noninterference :
  forall (re : string -> string -> option bool) (cfg : config) (e : expr) (d1 d2 : iface),
  hook cfg = None -> rveq (if tagname cfg =? "" then "pointer" else tagname cfg) d1 d2 -> eval re cfg [] e d1 = eval re cfg [] e d2.
Proof. exact Rel.c08_noninterference. Qed.
Print Assumptions c08_noninterference.

Theorem c08_premise_met :
  rveq "bexpr" (Some (tyS, VStruct [VInt 1; VStr "secret1"; VStr "x"])) (Some (tyS, VStruct [VInt 1; VStr "secret2"; VStr "y"])) /\
  VStruct [VInt 1; VStr "secret1"; VStr "x"] <> VStruct [VInt 1; VStr "secret2"; VStr "y"].
Proof. exact Rel.c08_premise_met. Qed.
Print Assumptions c08_premise_met.

Theorem c08_filter_same_positions :
  forall (re : string -> string -> option bool) (ev : evaluator) (t : gtype) (la lb : list gval),
  ev_hook ev = None ->
  kind_of_type t = KSlice ->
  Forall2 (veq (if ev_tag ev =? "" then "pointer" else ev_tag ev) (elem_type t)) la lb ->
  map (fun x : gval => evaluate re ev (r_interface (Some (elem_type t, x)))) la =
  map (fun x : gval => evaluate re ev (r_interface (Some (elem_type t, x)))) lb.
Proof. exact ApiMore.c08_filter_same_positions. Qed.
Print Assumptions c08_filter_same_positions.

Theorem c08_rename :
  forall (tn name tg : string) (ft : gtype) (v : gval) (rest : list fdecl) (restv : list gval) (part : string),
  tg <> "" ->
  before_comma tg <> "-" ->
  contains_byte (Ascii.Ascii false false true true true true true false) (before_comma tg) = false ->
  let fs := FD name true [(tn, tg)] ft :: rest in
  (part = before_comma tg -> get_struct tn part fs (v :: restv) None false = FFound ft v) /\
  (part = name -> name <> before_comma tg -> get_struct tn part fs (v :: restv) None false = get_struct tn part rest restv None false).
Proof. exact C08b.c08_rename. Qed.
Print Assumptions c08_rename.

