From Coq Require Import List ZArith String Ascii Bool NArith Lia.
Import ListNotations.
From Bexpr Require Import Base Ast Unicode Peg Typing Actions GoGrammar Sem Term Lex Lex2 Lex3 Calc Calc2 Skel Top Atoms StrLit AtomsEq Spell RawLit Coll AtomsIn.
Open Scope string_scope.

(* The three literal styles of a value: "double-quoted", `raw`, and bare (a dotted word). *)
Record vlit := {
  v_txt : list cell; v_lit : string;
  v_spec : forall k, astop k -> spec (PRef "Value") (app v_txt k) (VMV v_lit) k;
  v_free : forall k, ws_free (app v_txt k) }.

(* ---- double-quoted ---- *)
Definition q_txt (l : qlit) : list cell := l_q l :: app (l_x l :: l_cs l) [l_q' l].
Lemma q_txt_app l k : app (q_txt l) k = l_cells l k.
Proof. unfold q_txt, l_cells. repeat (cbn [app]; rewrite <- ?app_assoc). reflexivity. Qed.
Definition of_qlit (l : qlit) : vlit.
Proof.
  refine {| v_txt := q_txt l; v_lit := l_lit l |}.
  - intros k _. rewrite q_txt_app. apply l_value.
  - intros k. rewrite q_txt_app. cbn. rewrite (l_hq l). reflexivity.
Defined.

(* ---- bare ---- *)
Definition of_bare (i : ident) (segs : list ident) (Hi : ident_ok i) (Hs : Forall ident_ok segs) : vlit.
Proof.
  refine {| v_txt := fst i :: app (snd i) (dotted dotc segs []);
            v_lit := selector_string {| stype := SelBexpr; spath := ident_str i :: map ident_str segs |} |}.
  - intros k Hk. cbn [app]. rewrite <- app_assoc, dotted_app. cbn [app].
    eapply ref_ok; [reflexivity|]. cbn [rexpr]. apply spec_j. apply choice_ok. apply specc_here.
    eapply action_ok; [apply lab_ok; apply (selector_spec dotc i segs k eq_refl (astop_sel_stop k Hk) Hi Hs)|].
    intros G. reflexivity.
  - intros k. cbn. exact (proj2 (head_letter _ (proj1 Hi))).
Defined.

(* ---- raw (back-quoted): the StringLiteral lemmas are in RawLit.v ---- *)
Section RawValue.
Variables (q : cell) (rest : list cell).
Hypothesis Hq : crune q = 96%Z.
Let i := q :: rest.

Lemma selector_fails_on_bq : fspecj (PRef "Selector") i.
Proof.
  eapply fref; [reflexivity|]. cbn [rexpr]. apply fchoice. constructor; [|constructor; [|constructor]].
  - apply faction. apply fseq. apply fseqs_here. apply flabeled.
    eapply fref; [reflexivity|]. cbn [rexpr]. apply faction. apply fseq. apply fseqs_here.
    apply fclass. unfold i. cbn. rewrite Hq. reflexivity.
  - apply faction. apply fseq. apply fseqs_here.
    refine (fails_f (head_not 34) _ i (fails_lit 34 []) _). unfold i. cbn. rewrite Hq. discriminate.
Qed.

Lemma iof_fails_bq : fspecj (PRef "IntegerOrFloat") i.
Proof.
  eapply fref; [reflexivity|]. cbn [rexpr]. apply fseq. apply fseqs_here. apply fchoice.
  constructor; [|constructor; [|constructor]].
  - refine (fails_f (head_not 48) _ i (fails_lit 48 []) _). unfold i. cbn. rewrite Hq. discriminate.
  - apply fseq. apply fseqs_here. apply fclass. unfold i. cbn. rewrite Hq. reflexivity.
Qed.
Lemma minus_fails_bq : fspecj (PLit [45]%Z false) i.
Proof. refine (fails_f (head_not 45) _ i (fails_lit 45 []) _). unfold i. cbn. rewrite Hq. discriminate. Qed.
Lemma number_fails_on_bq : fspecj (PRef "NumberLiteral") i.
Proof.
  eapply fref; [reflexivity|]. cbn [rexpr]. apply fchoice. constructor; [|constructor; [|constructor]].
  - apply faction. apply fseq. eapply fseqs_later; [apply (opt_none _ i minus_fails_bq)|]. apply fseqs_here. apply iof_fails_bq.
  - apply fseq. eapply fseqs_later; [apply (opt_none _ i minus_fails_bq)|]. apply fseqs_here. apply iof_fails_bq.
Qed.
End RawValue.

Theorem value_raw_spec q cs q' k lit :
  crune q = 96%Z -> crune q' = 96%Z -> Forall not_bq cs -> unquote (cells_str (q :: app cs [q'])) = Some lit ->
  spec (PRef "Value") (q :: app cs (q' :: k)) (VMV lit) k.
Proof.
  intros Hq Hq' Hcs Hu.
  eapply ref_ok; [reflexivity|]. cbn [rexpr]. apply spec_j. apply choice_ok.
  apply specc_next; [apply faction; apply flabeled; apply (selector_fails_on_bq q _ Hq)|].
  apply specc_next; [apply faction; apply flabeled; apply (number_fails_on_bq q _ Hq)|].
  apply specc_here. eapply action_ok; [apply lab_ok; apply (raw_literal_spec q cs q' k lit Hq Hq' Hcs Hu)|].
  intros G. reflexivity.
Qed.

Record rlit := { r_q : cell; r_cs : list cell; r_q' : cell; r_lit : string;
                 r_hq : crune r_q = 96%Z; r_hq' : crune r_q' = 96%Z; r_body : Forall not_bq r_cs;
                 r_unq : unquote (cells_str (r_q :: app r_cs [r_q'])) = Some r_lit }.
Definition of_rlit (l : rlit) : vlit.
Proof.
  refine {| v_txt := r_q l :: app (r_cs l) [r_q' l]; v_lit := r_lit l |}.
  - intros k _. cbn [app]. rewrite <- app_assoc. cbn [app].
    exact (value_raw_spec (r_q l) (r_cs l) (r_q' l) k (r_lit l) (r_hq l) (r_hq' l) (r_body l) (r_unq l)).
  - intros k. cbn. rewrite (r_hq l). reflexivity.
Defined.
Print Assumptions value_raw_spec.
