From Coq Require Import List ZArith String Ascii Bool NArith Lia.
Import ListNotations.
From Bexpr Require Import Base Strconv Ast Univ Eval Props Lexical Unroll.
Open Scope string_scope.

(* C07, evaluator half: Evaluate looks at a selector only through its list of parts. *)
Fixpoint same_paths (a b : expr) : Prop :=
  match a, b with
  | ENot x, ENot y => same_paths x y
  | EBin o x1 x2, EBin o' y1 y2 => o = o' /\ same_paths x1 y1 /\ same_paths x2 y2
  | EMatch s op v, EMatch s' op' v' => spath s = spath s' /\ op = op' /\ v = v'
  | EColl o s b x, EColl o' s' b' y => o = o' /\ spath s = spath s' /\ b = b' /\ same_paths x y
  | _, _ => False
  end.

Theorem c07_eval_ignores_selector_type re cfg d : forall a b ls, same_paths a b -> eval re cfg ls a d = eval re cfg ls b d.
Proof.
  induction a as [x IHx|o x1 IH1 x2 IH2|s op v|o s bd x IHx]; intros b ls H; destruct b as [y|o' y1 y2|s' op' v'|o' s' bd' y]; try contradiction.
  - cbn [Eval.eval]. rewrite (IHx y ls H). reflexivity.
  - destruct H as [-> [H1 H2]]. cbn [Eval.eval]. rewrite (IH1 y1 ls H1), (IH2 y2 ls H2). reflexivity.
  - destruct H as [Hs [-> ->]]. cbn [Eval.eval]. rewrite Hs. reflexivity.
  - destruct H as [-> [Hs [-> H]]]. cbn [Eval.eval]. rewrite Hs.
    destruct (get_value cfg ls (spath s') d) as [[v|]|err|]; try reflexivity.
    assert (Hev : forall m i k, eval re cfg (app (bind_elem bd' (spath s') m i k) ls) x d = eval re cfg (app (bind_elem bd' (spath s') m i k) ls) y d).
    { intros m i k. apply IHx. exact H. }
    destruct (kind_of v); try reflexivity; destruct v as [[t rv]|]; try reflexivity; destruct rv; try reflexivity.
    all: try (apply coll_loop_ext; intros i k; apply Hev).
    all: try (destruct (type_eqb (key_type t) TString); [apply coll_loop_ext; intros i k; apply Hev| reflexivity]).
Qed.
Print Assumptions c07_eval_ignores_selector_type.
