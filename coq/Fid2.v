From Coq Require Import List ZArith String Ascii Bool NArith Lia.
Import ListNotations.
From Bexpr Require Import Base Ast Unicode Peg Typing Actions GoGrammar Sem Term Lex Lex2 Lex3 Calc Calc2 Skel Top Atoms StrLit AtomsEq Spell C07 Ptr Sels C16 Fidelity.
Open Scope string_scope.

(* Quoted literals whose body begins with a slash (the D9 family), on the repaired grammar. *)

Lemma cells_str_app a b : cells_str (app a b) = cells_str a ++ cells_str b.
Proof. induction a as [|c a IH]; cbn; [reflexivity|]. unfold cells_str in IH. rewrite IH. symmetry. apply sapp_assoc. Qed.

Lemma pointer_text ps : cells_str (qc :: psegs_cells ps [qc]) = String dq (cells_str (psegs_cells ps []) ++ String dq "").
Proof.
  change [qc] with (app [] [qc]). rewrite <- psegs_cells_app.
  change (qc :: app (psegs_cells ps []) [qc]) with (app [qc] (app (psegs_cells ps []) [qc])).
  rewrite !cells_str_app. reflexivity.
Qed.

(* A: the whole body is pointer-like: the Selector alternative of Value reads it, and the repaired action returns the raw text *)
Theorem value_pointer_like_spec ps k : Forall pseg_ok ps ->
  spec (PRef "Value") (qc :: psegs_cells ps (qc :: k)) (VMV (cells_str (psegs_cells ps []))) k.
Proof.
  intros Hok. eapply ref_ok; [reflexivity|]. cbn [rexpr]. apply spec_j. apply choice_ok. apply specc_here.
  eapply action_ok; [apply lab_ok; apply (selector_pointer qc ps qc k eq_refl eq_refl Hok)|].
  intros G.
  change (action_sem "Value2" _ _) with (AVal (VMV (strip_quotes (text_between (qc :: psegs_cells ps (qc :: k)) k)))).
  rewrite (text_between_prefix' (qc :: psegs_cells ps [qc]) k).
  - rewrite pointer_text, strip_quotes_quote. reflexivity.
  - cbn [app]. rewrite psegs_cells_app. reflexivity.
Qed.
Print Assumptions value_pointer_like_spec.

(* B: the JSON-pointer alternative of Selector reads a prefix of segments and then fails cleanly *)
Lemma fplus_class cc i : class_miss cc i -> fspecj (PPlus (PClass cc)) i.
Proof.
  intros H _ s E.
  assert (Hm : match inp (tk s) with [] => True | c :: _ => class_match cc (crune c) = false end) by (cbn; rewrite E; exact H).
  destruct (semw_class_miss cc (tk s) Hm) as [s1 [H1 [Hi [Hn Hf]]]].
  exists VNil, s1. split; [apply sem_tick; eapply sb_plus_fail; exact H1|]. rewrite Hi, Hn. cbn. auto.
Qed.

Definition not_seg_start (R : list cell) : Prop :=
  head_not 47 R \/ exists R', R = slc :: R' /\ class_miss cls_ptr R'.

Lemma jps_fails_gen R : not_seg_start R -> fspecj (PRef "JsonPointerSegment") R.
Proof.
  intros [H|[R' [-> H]]]; eapply fref; try reflexivity; cbn [rexpr]; apply faction; apply fseq.
  - apply fseqs_here. exact (fails_f (head_not 47) _ R (fails_lit 47 []) H).
  - eapply fseqs_later; [apply (lit_ok [47]%Z [slc] R' eq_refl)|]. apply fseqs_here. apply flabeled. apply fplus_class. exact H.
Qed.

Lemma semr_psegs_gen R : not_seg_start R ->
  forall ps acc s, Forall pseg_ok ps -> (ps = [] \/ class_miss cls_ptr R) -> inp s = psegs_cells ps R -> all_valid (psegs_cells ps R) ->
  all_valid R /\ exists v s', SEMR (PRef "JsonPointerSegment") acc s (Done true v s') /\ keeps s s' R.
Proof.
  intros HR. induction ps as [|p r IH]; intros acc s Hok Hm E Hv.
  - cbn [psegs_cells] in *. split; [exact Hv|].
    destruct (jps_fails_gen R HR Hv (set_fr s []) E) as [v [s1 [H1 [Hi Hn]]]].
    exists (VList (rev acc)), (set_fr s1 (fr s)). split; [eapply sr_stop; exact (L_w _ s false v s1 H1)|].
    unfold keeps. cbn. auto.
  - destruct Hm as [Hm|Hm]; [discriminate|].
    inversion Hok as [|? ? [Hc Hcs] Hr]; subst. destruct p as [c cs]. cbn [psegs_cells fst snd] in *.
    assert (Hmiss : class_miss cls_ptr (psegs_cells r R)) by (destruct r; cbn [psegs_cells]; [exact Hm| apply ptr_miss_slash]).
    destruct (ptr_seg_spec c cs _ Hc Hcs Hmiss Hv) as [Hv' Hspec].
    destruct (Hspec (set_fr s []) E) as [s1 [H1 [Hi [Hn Hf]]]].
    assert (E1 : inp (set_fr s1 (fr s)) = psegs_cells r R) by exact Hi.
    destruct (IH (VStr (cells_str (c :: cs)) :: acc) _ Hr (or_intror Hm) E1 Hv') as [Hvk [v2 [s2 [H2 [Hi2 [Hn2 Hf2]]]]]].
    split; [exact Hvk|]. exists v2, s2. split; [eapply sr_more; [exact (L_w _ s true _ s1 H1)| exact H2]|].
    unfold keeps. rewrite Hi2, Hn2, Hf2. cbn. rewrite Hn. cbn. auto.
Qed.

Lemma star_psegs_any ps R : not_seg_start R -> Forall pseg_ok ps -> (ps = [] \/ class_miss cls_ptr R) ->
  pe_any (PStar (PRef "JsonPointerSegment")) (psegs_cells ps R) R.
Proof.
  intros HR Hok Hm Hv.
  split; [exact (proj1 (semr_psegs_gen R HR ps [] {| inp := psegs_cells ps R; cnt := 0; nerr := 0; fr := [] |} Hok Hm eq_refl Hv))|].
  intros s E. destruct (semr_psegs_gen R HR ps [] (tk s) Hok Hm E Hv) as [_ [v [s1 [H1 [Hi [Hn _]]]]]].
  exists v, s1. split; [apply sem_tick; apply sb_star; exact H1| auto].
Qed.

Lemma selector_fails_ptr_prefix ps R : not_seg_start R -> head_not 34 R -> Forall pseg_ok ps -> (ps = [] \/ class_miss cls_ptr R) ->
  fspecj (PRef "Selector") (qc :: psegs_cells ps R).
Proof.
  intros HR H34 Hok Hm.
  eapply fref; [reflexivity|]. cbn [rexpr]. apply fchoice. constructor; [|constructor; [|constructor]].
  - apply faction. apply fseq. apply fseqs_here. apply flabeled.
    eapply fref; [reflexivity|]. cbn [rexpr]. apply faction. apply fseq. apply fseqs_here. apply fclass. reflexivity.
  - apply faction. apply fseq.
    eapply fseqs_later_any; [eapply pe_ok_any; apply (lit_ok [34]%Z [qc] _ eq_refl)|].
    eapply fseqs_later_any; [apply lab_any; apply (star_psegs_any ps R HR Hok Hm)|].
    apply fseqs_here. exact (fails_f (head_not 34) _ R (fails_lit 34 []) H34).
Qed.

Lemma psegs_forall_tail (P : cell -> Prop) ps r : Forall P (psegs_cells ps r) -> Forall P r.
Proof.
  induction ps as [|p ps IH]; cbn [psegs_cells]; intros H; [exact H|].
  inversion H as [|? ? _ H1]; subst. inversion H1 as [|? ? _ H2]; subst.
  apply IH. exact (proj2 (proj1 (Forall_app _ _ _) H2)).
Qed.

(* C: a quoted literal that starts like a pointer but is not one is still read as a string literal *)
Theorem value_slash_mixed_spec ps r k lit :
  Forall pseg_ok ps -> r <> [] -> not_seg_start (app r (qc :: k)) -> (ps = [] \/ class_miss cls_ptr (app r (qc :: k))) ->
  Forall not_dq (psegs_cells ps r) ->
  unquote (cells_str (qc :: app (psegs_cells ps r) [qc])) = Some lit ->
  spec (PRef "Value") (qc :: psegs_cells ps (app r (qc :: k))) (VMV lit) k.
Proof.
  intros Hok Hr HR Hm Hnd Hu.
  assert (H34 : head_not 34 (app r (qc :: k))).
  { destruct r as [|x r']; [congruence|]. cbn.
    pose proof (psegs_forall_tail not_dq ps _ Hnd) as Hin.
    exact (Forall_inv Hin). }
  assert (Ebody : psegs_cells ps (app r (qc :: k)) = app (psegs_cells ps r) (qc :: k)) by (rewrite psegs_cells_app; reflexivity).
  eapply ref_ok; [reflexivity|]. cbn [rexpr]. apply spec_j. apply choice_ok.
  apply specc_next; [apply faction; apply flabeled; apply (selector_fails_ptr_prefix ps _ HR H34 Hok Hm)|].
  apply specc_next.
  { apply faction. apply flabeled. rewrite Ebody.
    destruct (psegs_cells ps r) as [|x rest] eqn:Eb.
    - destruct ps; cbn [psegs_cells] in Eb; [congruence| discriminate].
    - cbn [app]. exact (number_fails_on_quote qc x _ eq_refl). }
  apply specc_here. eapply action_ok; [apply lab_ok; rewrite Ebody; apply (string_literal_spec qc (psegs_cells ps r) qc k lit eq_refl eq_refl Hnd Hu)|].
  intros G. reflexivity.
Qed.
Print Assumptions value_slash_mixed_spec.
