From Coq Require Import List ZArith String Ascii Bool NArith Lia.
Import ListNotations.
From Bexpr Require Import Base Ast Unicode Peg Typing Actions GoGrammar Sem Term.
Open Scope string_scope.

(* Derived lexical rules for the bexpr table, written with the declarative semantics. *)
Notation SEM := (sem go_grammar action_sem pred_sem).
Notation SEMW := (semw go_grammar action_sem pred_sem).
Notation SEMR := (semr go_grammar action_sem pred_sem).
Notation SEMB := (semb go_grammar action_sem pred_sem).

Definition all_valid (i : list cell) : Prop := Forall (fun c => cvalid c = true) i.
Definition keeps (s s' : st) (i : list cell) : Prop := inp s' = i /\ nerr s' = nerr s /\ fr s' = fr s.

Lemma advance_keeps s c rest : inp s = c :: rest -> all_valid rest -> keeps s (advance s) rest.
Proof.
  intros E Hv. unfold advance. rewrite E. unfold keeps.
  destruct rest as [|c' r]; cbn; [auto|]. inversion Hv as [|? ? Hc _]; subst. rewrite Hc. cbn. auto.
Qed.

(* a character class on the next cell *)
Lemma semw_class_hit cc s c rest : inp s = c :: rest -> all_valid rest -> class_match cc (crune c) = true ->
  exists s', SEMW (PClass cc) s (Done true (VBytes (cbytes c)) s') /\ keeps s s' rest.
Proof.
  intros E Hv Hc.
  set (st1 := tk (set_fr s [])).
  assert (E1 : inp st1 = c :: rest) by exact E.
  assert (Hb : body go_grammar action_sem pred_sem no_rec 0 (PClass cc) st1 = Done true (VBytes (cbytes c)) (advance st1)).
  { cbn [body]. rewrite E1, Hc. reflexivity. }
  exists (set_fr (advance st1) (fr s)). split.
  - change (Done true (VBytes (cbytes c)) (set_fr (advance st1) (fr s))) with (in_frame s (Done true (VBytes (cbytes c)) (advance st1))).
    apply sw. apply sem_tick. fold st1. rewrite <- Hb. apply sb_leaf. reflexivity.
  - destruct (advance_keeps st1 c rest E1 Hv) as [H1 [H2 H3]]. unfold keeps. cbn. auto.
Qed.

Lemma semw_class_miss cc s : match inp s with [] => True | c :: _ => class_match cc (crune c) = false end ->
  exists s', SEMW (PClass cc) s (Done false VNil s') /\ keeps s s' (inp s).
Proof.
  intros H. set (st1 := tk (set_fr s [])).
  assert (Hb : body go_grammar action_sem pred_sem no_rec 0 (PClass cc) st1 = Done false VNil st1).
  { cbn [body]. change (inp st1) with (inp s). destruct (inp s) as [|c r]; [reflexivity|]. rewrite H. reflexivity. }
  exists (set_fr st1 (fr s)). split.
  - change (Done false VNil (set_fr st1 (fr s))) with (in_frame s (Done false VNil st1)).
    apply sw. apply sem_tick. fold st1. rewrite <- Hb. apply sb_leaf. reflexivity.
  - unfold keeps. cbn. auto.
Qed.

(* greedy repetition of a class: consumes the longest prefix of matching cells *)
Lemma semr_class cc k : match k with [] => True | c :: _ => class_match cc (crune c) = false end ->
  forall cs acc s, inp s = app cs k -> all_valid (app cs k) -> Forall (fun c => class_match cc (crune c) = true) cs ->
  exists v s', SEMR (PClass cc) acc s (Done true v s') /\ keeps s s' k.
Proof.
  intros Hk. induction cs as [|c cs IH]; intros acc s E Hv Hc.
  - cbn in E. destruct (semw_class_miss cc s) as [s1 [H1 H2]]; [rewrite E; exact Hk|].
    exists (VList (rev acc)), s1. split; [eapply sr_stop; exact H1|]. rewrite E in H2. exact H2.
  - cbn in E. inversion Hc as [|? ? Hc1 Hc2]; subst. inversion Hv as [|? ? Hv1 Hv2]; subst.
    destruct (semw_class_hit cc s c (app cs k) E Hv2 Hc1) as [s1 [H1 [Hi [Hn Hf]]]].
    destruct (IH (VBytes (cbytes c) :: acc) s1 Hi Hv2 Hc2) as [v [s2 [H3 [Hi2 [Hn2 Hf2]]]]].
    exists v, s2. split; [eapply sr_more; [exact H1|exact H3]|]. unfold keeps. rewrite Hi2, Hn2, Hf2, Hn, Hf. auto.
Qed.
Print Assumptions semr_class.

(* ---- sem-level (no fresh frame) versions, for elements of a sequence ---- *)
Lemma sem_class_hit cc s c rest : inp s = c :: rest -> all_valid rest -> class_match cc (crune c) = true ->
  exists s', SEM (PClass cc) s (Done true (VBytes (cbytes c)) s') /\ keeps s s' rest.
Proof.
  intros E Hv Hc. set (st1 := tk s).
  assert (E1 : inp st1 = c :: rest) by exact E.
  assert (Hb : body go_grammar action_sem pred_sem no_rec 0 (PClass cc) st1 = Done true (VBytes (cbytes c)) (advance st1)).
  { cbn [body]. rewrite E1, Hc. reflexivity. }
  exists (advance st1). split.
  - apply sem_tick. fold st1. rewrite <- Hb. apply sb_leaf. reflexivity.
  - destruct (advance_keeps st1 c rest E1 Hv) as [H1 [H2 H3]]. unfold keeps. auto.
Qed.

Lemma sem_class_miss cc s : match inp s with [] => True | c :: _ => class_match cc (crune c) = false end ->
  SEM (PClass cc) s (Done false VNil (tk s)).
Proof.
  intros H. set (st1 := tk s).
  assert (Hb : body go_grammar action_sem pred_sem no_rec 0 (PClass cc) st1 = Done false VNil st1).
  { cbn [body]. change (inp st1) with (inp s). destruct (inp s) as [|c r]; [reflexivity|]. rewrite H. reflexivity. }
  apply sem_tick. fold st1. rewrite <- Hb. apply sb_leaf. reflexivity.
Qed.

Lemma sem_star_class cc k : match k with [] => True | c :: _ => class_match cc (crune c) = false end ->
  forall cs s, inp s = app cs k -> all_valid (app cs k) -> Forall (fun c => class_match cc (crune c) = true) cs ->
  exists v s', SEM (PStar (PClass cc)) s (Done true v s') /\ keeps s s' k.
Proof.
  intros Hk cs s E Hv Hc.
  destruct (semr_class cc k Hk cs [] (tk s) E Hv Hc) as [v [s' [H1 H2]]].
  exists v, s'. split; [apply sem_tick; apply sb_star; exact H1| exact H2].
Qed.

Definition cells_str (cs : list cell) : string := fold_right (fun c acc => cbytes c ++ acc) "" cs.

Lemma text_between_prefix cs k : text_between (app cs k) k = cells_str cs.
Proof.
  unfold text_between. rewrite app_length.
  replace (List.length cs + List.length k - List.length k)%nat with (List.length cs) by lia.
  induction cs as [|c cs IH]; cbn.
  - destruct k; reflexivity.
  - rewrite IH. reflexivity.
Qed.

Definition cls_id_head := {| cc_val := "[a-zA-Z]"; cc_chars := []; cc_ranges := [97; 122; 65; 90]%Z; cc_classes := []; cc_ignore_case := false; cc_inverted := false |}.
Definition cls_id_tail := {| cc_val := "[a-zA-Z0-9_/]"; cc_chars := [95; 47]%Z; cc_ranges := [97; 122; 65; 90; 48; 57]%Z; cc_classes := []; cc_ignore_case := false; cc_inverted := false |}.

(* Identifier: a letter followed by the longest run of letters, digits, _ and /; the value is the matched text *)
Theorem sem_identifier c cs k s :
  inp s = c :: app cs k -> all_valid (app cs k) ->
  class_match cls_id_head (crune c) = true ->
  Forall (fun c => class_match cls_id_tail (crune c) = true) cs ->
  match k with [] => True | c :: _ => class_match cls_id_tail (crune c) = false end ->
  exists s', SEM (PRef "Identifier") s (Done true (VStr (cells_str (c :: cs))) s') /\ keeps s s' k.
Proof.
  intros E Hv Hh Ht Hk.
  set (s0 := tk s).                       (* PRef tick *)
  set (s1 := tk (set_fr s0 [])).          (* PAction tick, fresh frame *)
  set (s2 := tk s1).                      (* PSeq tick *)
  assert (E2 : inp s2 = c :: app cs k) by exact E.
  destruct (sem_class_hit cls_id_head s2 c (app cs k) E2 Hv Hh) as [s3 [H3 [Hi3 [Hn3 Hf3]]]].
  destruct (sem_star_class cls_id_tail k Hk cs s3 Hi3 Hv Ht) as [v [s4 [H4 [Hi4 [Hn4 Hf4]]]]].
  exists (set_fr s4 (fr s0)). split.
  - apply sem_tick. fold s0.
    eapply sb_ref; [reflexivity|]. cbn [rexpr].
    change (Done true (VStr (cells_str (c :: cs))) (set_fr s4 (fr s0))) with (in_frame s0 (Done true (VStr (cells_str (c :: cs))) s4)).
    apply sw. apply sem_tick. fold s1.
    assert (Hseq : SEM (PSeq [PClass cls_id_head; PStar (PClass cls_id_tail)]) s1 (Done true (VList (rev [v; VBytes (cbytes c)])) s4)).
    { apply sem_tick. fold s2. apply sb_seq. eapply ss_ok; [exact H3|]. eapply ss_ok; [exact H4|]. apply ss_nil. }
    pose proof (sb_action go_grammar action_sem pred_sem "Identifier1" _ s1 _ Hseq) as Ha.
    cbn [bindr] in Ha. unfold k_action in Ha.
    change (inp s1) with (inp s) in Ha. rewrite E, Hi4 in Ha.
    change (c :: app cs k) with (app (c :: cs) k) in Ha. rewrite text_between_prefix in Ha.
    exact Ha.
  - unfold keeps. cbn. rewrite Hi4, Hn4, Hn3. auto.
Qed.
Print Assumptions sem_identifier.
