From Coq Require Import List ZArith String Ascii Bool NArith Lia.
Import ListNotations.
From Bexpr Require Import Base Strconv.
Open Scope string_scope.
Open Scope Z_scope.

(* decimal numerals as digit lists, most significant first *)
Definition is_digit (d : Z) : Prop := 0 <= d <= 9.
Definition digit_char (d : Z) : ascii := z2b (48 + d).
Fixpoint dstr (ds : list Z) : string := match ds with [] => "" | d :: r => String (digit_char d) (dstr r) end.
Fixpoint dval (ds : list Z) (acc : Z) : Z := match ds with [] => acc | d :: r => dval r (acc * 10 + d) end.

Lemma b2z_z2b x : 0 <= x < 256 -> b2z (z2b x) = x.
Proof.
  intros H. unfold b2z, z2b. rewrite N_ascii_embedding; [apply Z2N.id; lia|].
  apply N2Z.inj_lt. rewrite Z2N.id by lia. cbn. lia.
Qed.

Lemma b2z_digit d : is_digit d -> b2z (digit_char d) = 48 + d.
Proof. unfold is_digit, digit_char. intros H. apply b2z_z2b. lia. Qed.

Lemma dval_ge ds : Forall is_digit ds -> forall acc, 0 <= acc -> acc <= dval ds acc.
Proof.
  induction 1 as [|d r Hd _ IH]; intros acc Ha; cbn [dval]; [lia|].
  unfold is_digit in Hd. specialize (IH (acc * 10 + d) ltac:(lia)). lia.
Qed.

Lemma pu_loop_dec maxv ds : Forall is_digit ds -> forall acc us, 0 <= acc -> dval ds acc <= maxv ->
  pu_loop (dstr ds) 10 maxv true acc us = POk (dval ds acc, us).
Proof.
  induction 1 as [|d r Hd Hr IH]; intros acc us Ha Hm; cbn [dstr dval pu_loop] in *; [reflexivity|].
  unfold is_digit in Hd. unfold digit_char. rewrite b2z_z2b by lia.
  replace (48 + d =? 95) with false by (symmetry; apply Z.eqb_neq; lia). cbn [andb].
  replace ((48 <=? 48 + d) && (48 + d <=? 57)) with true by (symmetry; apply andb_true_intro; split; apply Z.leb_le; lia).
  replace (48 + d - 48) with d by lia.
  replace (10 <=? d) with false by (symmetry; apply Z.leb_gt; lia).
  pose proof (dval_ge r Hr (acc * 10 + d) ltac:(lia)) as Hge.
  replace (maxv <? acc * 10 + d) with false by (symmetry; apply Z.ltb_ge; lia).
  apply IH; [lia|exact Hm].
Qed.

(* a numeral without a leading zero (the numeral "0" excepted) *)
Definition canonical (ds : list Z) : Prop :=
  Forall is_digit ds /\ match ds with [] => False | [_] => True | d :: _ => d <> 0 end.

Lemma parse_uint_dec ds bits : 0 < bits -> canonical ds -> dval ds 0 <= 2 ^ bits - 1 ->
  parse_uint (dstr ds) 0 bits = POk (dval ds 0).
Proof.
  intros Hb [Hd Hc] Hm. destruct ds as [|d r]; [contradiction|].
  inversion Hd as [|? ? Hd0 Hr]; subst. pose proof Hd0 as Hd0'. unfold is_digit in Hd0'.
  unfold parse_uint. cbn [dstr]. rewrite !(b2z_digit d Hd0). cbn [Z.eqb].
  replace (0 =? 0) with true by reflexivity.
  destruct (Z.eq_dec d 0) as [->|Hnz].
  - (* the numeral 0 *)
    destruct r as [|d' r']; [|exfalso; apply Hc; reflexivity].
    cbn. reflexivity.
  - replace (48 + d =? 48) with false by (symmetry; apply Z.eqb_neq; lia).
    pose proof (pu_loop_dec (2 ^ bits - 1) (d :: r) Hd 0 false ltac:(lia) Hm) as Hl.
    cbn [dstr] in Hl. rewrite Hl. cbn. reflexivity.
Qed.

(* C02, integer literals: every canonical decimal numeral in range parses to the value it denotes ... *)
Theorem parse_int_dec_pos ds : canonical ds -> dval ds 0 < 2 ^ 63 ->
  parse_int (dstr ds) 0 64 = POk (dval ds 0).
Proof.
  intros Hc Hm. pose proof Hc as [Hd Hne]. destruct ds as [|d r]; [contradiction|].
  inversion Hd as [|? ? Hd0 Hr]; subst. pose proof Hd0 as Hd0'. unfold is_digit in Hd0'.
  unfold parse_int. cbn [dstr]. rewrite !(b2z_digit d Hd0).
  replace (48 + d =? 45) with false by (symmetry; apply Z.eqb_neq; lia).
  replace (48 + d =? 43) with false by (symmetry; apply Z.eqb_neq; lia). cbn [orb].
  change (String (digit_char d) (dstr r)) with (dstr (d :: r)).
  change (2 ^ 63) with 9223372036854775808 in Hm.
  rewrite (parse_uint_dec (d :: r) 64 ltac:(lia) Hc) by (change (2 ^ 64 - 1) with 18446744073709551615; lia).
  cbn [negb andb]. change (2 ^ (64 - 1)) with 9223372036854775808.
  replace (9223372036854775808 <=? dval (d :: r) 0) with false by (symmetry; apply Z.leb_gt; lia). reflexivity.
Qed.

(* ... with a minus sign down to -2^63 ... *)
Theorem parse_int_dec_neg ds : canonical ds -> dval ds 0 <= 2 ^ 63 ->
  parse_int (String "-"%char (dstr ds)) 0 64 = POk (- dval ds 0).
Proof.
  intros Hc Hm. unfold parse_int.
  assert (E : b2z "-"%char = 45) by reflexivity. rewrite !E.
  replace (45 =? 45) with true by reflexivity. replace (45 =? 43) with false by reflexivity. cbn [orb].
  change (2 ^ 63) with 9223372036854775808 in Hm.
  rewrite (parse_uint_dec ds 64 ltac:(lia) Hc) by (change (2 ^ 64 - 1) with 18446744073709551615; lia).
  cbn [negb andb]. change (2 ^ (64 - 1)) with 9223372036854775808.
  replace (9223372036854775808 <? dval ds 0) with false by (symmetry; apply Z.ltb_ge; lia). reflexivity.
Qed.

(* ... and a numeral denoting 2^63 or more is a range error, never a wrapped value *)
Theorem parse_int_dec_overflow ds : canonical ds -> 2 ^ 63 <= dval ds 0 <= 2 ^ 64 - 1 ->
  parse_int (dstr ds) 0 64 = PErr PRange.
Proof.
  intros Hc Hm. pose proof Hc as [Hd Hne]. destruct ds as [|d r]; [contradiction|].
  inversion Hd as [|? ? Hd0 Hr]; subst. pose proof Hd0 as Hd0'. unfold is_digit in Hd0'.
  unfold parse_int. cbn [dstr]. rewrite !(b2z_digit d Hd0).
  replace (48 + d =? 45) with false by (symmetry; apply Z.eqb_neq; lia).
  replace (48 + d =? 43) with false by (symmetry; apply Z.eqb_neq; lia). cbn [orb].
  change (String (digit_char d) (dstr r)) with (dstr (d :: r)).
  rewrite (parse_uint_dec (d :: r) 64 ltac:(lia) Hc) by lia.
  cbn [negb andb]. change (2 ^ (64 - 1)) with 9223372036854775808. change (2 ^ 63) with 9223372036854775808 in Hm.
  replace (9223372036854775808 <=? dval (d :: r) 0) with true by (symmetry; apply Z.leb_le; lia). reflexivity.
Qed.

(* non-vacuity: 9223372036854775807 and -9223372036854775808 *)
Example max_int64 : parse_int "9223372036854775807" 0 64 = POk 9223372036854775807 /\ parse_int "-9223372036854775808" 0 64 = POk (-9223372036854775808)
  /\ parse_int "9223372036854775808" 0 64 = PErr PRange /\ parse_int "9007199254740993" 0 64 = POk 9007199254740993.
Proof. vm_compute. repeat split. Qed.

Print Assumptions parse_int_dec_pos.
Print Assumptions parse_int_dec_overflow.
