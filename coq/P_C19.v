(* Property C19 - ExpressionDump and Selector.String render the tree faithfully. lines is the reference renderer (pre-order (level, text) list); dump transcribes ast.go; go_quote models strconv.Quote (validated against the real function). Statements only (proofs: Dump.v, C19b.v). *)
From Coq Require Import List String ZArith NArith Bool Permutation. From Bexpr Require Import Base Strconv Ast Univ Eval Dump Quote C19b. Import ListNotations.

Theorem c19_dump_spec :
  forall (quote : string -> string) (ind : string) (e : expr) (lvl : nat), dump quote ind lvl e = render ind (lines quote lvl e).
Proof. exact Dump.c19_dump_spec. Qed.
Print Assumptions c19_dump_spec.

Theorem c19_dump_go :
  forall (ind : string) (e : expr) (lvl : nat), dump go_quote ind lvl e = render ind (lines go_quote lvl e).
Proof. exact C19b.c19_dump_go. Qed.
Print Assumptions c19_dump_go.

Theorem dump_matches_go :
  dump go_quote "  " 1 (EMatch {| stype := SelBexpr; spath := ["path"] |} OpEq (Some lit1)) =
  "  Equal {" ++ nl1 ++ "    Selector: path" ++ nl1 ++ "    Value: ""a\""b\\c\n""" ++ nl1 ++ "  }" ++ nl1.
Proof. exact C19b.dump_matches_go. Qed.
Print Assumptions dump_matches_go.


(* ---- ties to the constant tables regenerated from the Go sources (tools/gotables -> GoTables.v) ---- *)
From Coq Require Import List String ZArith NArith Bool. From Bexpr Require Import Base Strconv Ast Univ Eval Api Dump GoTables TableTie TieNames. Import ListNotations.

Theorem match_operator_names :
  forall op : matchop, assoc (mop_go op) go_string_MatchOperator = Some (mop_name op).
Proof. exact TieNames.match_operator_names. Qed.
Print Assumptions match_operator_names.

Theorem binary_operator_names :
  assoc "BinaryOpAnd" go_string_BinaryOperator = Some (bop_name BAnd) /\
  assoc "BinaryOpOr" go_string_BinaryOperator = Some (bop_name BOr) /\ assoc "UnaryOpNot" go_string_UnaryOperator = Some "Not".
Proof. exact TieNames.binary_operator_names. Qed.
Print Assumptions binary_operator_names.

Theorem collection_names :
  assoc "CollectionOpAll" go_const_CollectionOperator = Some (cop_name CAll) /\
  assoc "CollectionOpAny" go_const_CollectionOperator = Some (cop_name CAny) /\
  go_const_CollectionBindMode =
  [("CollectionBindDefault", "Default"); ("CollectionBindIndex", "Index"); ("CollectionBindValue", "Value");
   ("CollectionBindIndexAndValue", "Index & Value")].
Proof. exact TieNames.collection_names. Qed.
Print Assumptions collection_names.

