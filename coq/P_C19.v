(* Property C19 - ExpressionDump and Selector.String render the tree faithfully. lines is the reference renderer (pre-order (level, text) list); dump transcribes ast.go; go_quote models strconv.Quote (validated against the real function). Statements only (proofs: Dump.v, C19b.v). *)
From Coq Require Import List String ZArith NArith Bool Permutation. From Bexpr Require Import Base Strconv Ast Univ Eval Dump Quote C19b. Import ListNotations.

Theorem c19_dump_spec :
  forall (quote : string -> string) (ind : string) (e : expr) (lvl : nat), dump quote ind lvl e = render ind (lines quote lvl e).
Proof. exact Dump.c19_dump_spec. Qed.
Print Assumptions c19_dump_spec.

Theorem c19_dump_go :
  forall (ind : string) (e : expr) (lvl : nat), dump go_quote ind lvl e = render ind (lines go_quote lvl e).
Proof. exact C19b.c19_dump_go. Qed.
Print Assumptions c19_dump_go.

Theorem dump_matches_go :
  dump go_quote "  " 1 (EMatch {| stype := SelBexpr; spath := ["path"] |} OpEq (Some lit1)) =
  "  Equal {" ++ nl1 ++ "    Selector: path" ++ nl1 ++ "    Value: ""a\""b\\c\n""" ++ nl1 ++ "  }" ++ nl1.
Proof. exact C19b.dump_matches_go. Qed.
Print Assumptions dump_matches_go.

