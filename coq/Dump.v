From Coq Require Import List ZArith String Ascii Bool NArith Lia.
Import ListNotations.
From Bexpr Require Import Base Ast.
Open Scope string_scope.

Section D.
Variable quote : string -> string.      (* fmt %q = strconv.Quote, modelled in Base/ *)

Definition selector_string (s : selector) : string :=
  match spath s with [] => "" | p => match stype s with SelBexpr => sjoin "." p | SelJsonPtr => sjoin "/" p end end.

Definition mop_name (o : matchop) : string :=
  match o with OpEq => "Equal" | OpNeq => "Not Equal" | OpIn => "In" | OpNotIn => "Not In" | OpIsEmpty => "Is Empty"
             | OpIsNotEmpty => "Is Not Empty" | OpMatches => "Matches" | OpNotMatches => "Not Matches" end.
Definition shows_value (o : matchop) : bool := match o with OpEq | OpNeq | OpIn | OpNotIn => true | _ => false end.
Definition bop_name (o : binop) : string := match o with BAnd => "And" | BOr => "Or" end.
Definition cop_name (o : collop) : string := match o with CAll => "ALL" | CAny => "ANY" end.
Definition binding_string (b : binding) : string :=
  match bmode b with
  | BDefault => "Default (" ++ bdefault b ++ ")"
  | BIndex => "Index (" ++ bindex b ++ ")"
  | BValue => "Value (" ++ bvalue b ++ ")"
  | BIndexAndValue => "Index & Value (" ++ bindex b ++ ", " ++ bvalue b ++ ")"
  end.

Fixpoint srepeat (s : string) (n : nat) : string := match n with O => "" | S n' => s ++ srepeat s n' end.
Definition nl : string := String (ascii_of_nat 10) "".

(* transcription of the four ExpressionDump methods *)
Fixpoint dump (ind : string) (lvl : nat) (e : expr) : string :=
  let li := srepeat ind lvl in
  match e with
  | ENot a => li ++ "Not {" ++ nl ++ dump ind (S lvl) a ++ li ++ "}" ++ nl
  | EBin op a b => li ++ bop_name op ++ " {" ++ nl ++ dump ind (S lvl) a ++ dump ind (S lvl) b ++ li ++ "}" ++ nl
  | EMatch s op v =>
      if shows_value op then
        li ++ mop_name op ++ " {" ++ nl ++ srepeat ind (S lvl) ++ "Selector: " ++ selector_string s ++ nl
           ++ srepeat ind (S lvl) ++ "Value: " ++ quote (match v with Some r => r | None => "" end) ++ nl ++ li ++ "}" ++ nl
      else
        li ++ mop_name op ++ " {" ++ nl ++ srepeat ind (S lvl) ++ "Selector: " ++ selector_string s ++ nl ++ li ++ "}" ++ nl
  | EColl op s b inner =>
      li ++ cop_name op ++ " " ++ binding_string b ++ " on " ++ selector_string s ++ " {" ++ nl ++ dump ind (S lvl) inner ++ li ++ "}" ++ nl
  end.

(* the reference renderer: pre-order list of (level, text) lines *)
Fixpoint lines (lvl : nat) (e : expr) : list (nat * string) :=
  match e with
  | ENot a => (lvl, "Not {") :: app (lines (S lvl) a) [(lvl, "}")]
  | EBin op a b => (lvl, bop_name op ++ " {") :: app (lines (S lvl) a) (app (lines (S lvl) b) [(lvl, "}")])
  | EMatch s op v =>
      (lvl, mop_name op ++ " {") :: (S lvl, "Selector: " ++ selector_string s)
        :: app (if shows_value op then [(S lvl, "Value: " ++ quote (match v with Some r => r | None => "" end))] else []) [(lvl, "}")]
  | EColl op s b inner =>
      (lvl, cop_name op ++ " " ++ binding_string b ++ " on " ++ selector_string s ++ " {") :: app (lines (S lvl) inner) [(lvl, "}")]
  end.

Definition render_line (ind : string) (l : nat * string) : string := srepeat ind (fst l) ++ snd l ++ nl.
Definition render (ind : string) (ls : list (nat * string)) : string := sconcat (map (render_line ind) ls).

Lemma sapp_assoc (a b c : string) : (a ++ b) ++ c = a ++ (b ++ c).
Proof. induction a as [|x a IH]; cbn; [reflexivity|]. rewrite IH. reflexivity. Qed.
Lemma sapp_nil_r (a : string) : a ++ "" = a.
Proof. induction a as [|x a IH]; cbn; [reflexivity|]. rewrite IH. reflexivity. Qed.

Lemma sconcat_app a b : sconcat (app a b) = sconcat a ++ sconcat b.
Proof. induction a as [|x a IH]; cbn; [reflexivity|]. rewrite IH. rewrite sapp_assoc. reflexivity. Qed.
Lemma render_app ind a b : render ind (app a b) = render ind a ++ render ind b.
Proof. unfold render. rewrite map_app. apply sconcat_app. Qed.
Lemma render_cons ind l ls : render ind (l :: ls) = render_line ind l ++ render ind ls.
Proof. reflexivity. Qed.
Lemma render_one ind l : render ind [l] = render_line ind l.
Proof. unfold render. cbn. apply sapp_nil_r. Qed.

Theorem c19_dump_spec ind e : forall lvl, dump ind lvl e = render ind (lines lvl e).
Proof.
  induction e as [a IHa | op a IHa b IHb | s op v | op s b inner IH]; intros lvl; cbn [dump lines].
  - rewrite render_cons, render_app, render_one, <- IHa. unfold render_line. cbn [fst snd].
    repeat rewrite sapp_assoc. reflexivity.
  - rewrite render_cons, !render_app, render_one, <- IHa, <- IHb. unfold render_line. cbn [fst snd].
    repeat rewrite sapp_assoc. reflexivity.
  - rewrite !render_cons, render_app, render_one. destruct (shows_value op); unfold render_line; cbn [fst snd];
      [rewrite render_one; unfold render_line; cbn [fst snd]|cbn [render map sconcat]];
      repeat rewrite sapp_assoc; reflexivity.
  - rewrite render_cons, render_app, render_one, <- IH. unfold render_line. cbn [fst snd].
    repeat rewrite sapp_assoc. reflexivity.
Qed.
End D.
Print Assumptions c19_dump_spec.
