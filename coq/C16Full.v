From Coq Require Import List ZArith String Ascii Bool NArith Lia.
Import ListNotations.
From Bexpr Require Import Base Ast Unicode Peg Typing Actions GoGrammar Sem Term Lex Lex2 Lex3 Calc Calc2 Skel Top Atoms StrLit AtomsEq Spell C07 Ptr Sels Coll.
Open Scope string_scope.

(* C16, closed form with quantifiers: trees built from not / and / or / parentheses / any / all over the two atom
   families, in any layout, are accepted by parse and yield the tree. *)
Notation RO := (rOr atom2 atxt2 aexp2 chdr h_txt h_op h_sel h_bind).

Theorem c16_full_parse input e t w0 w1 :
  RO e t -> Forall is_ws w0 -> Forall is_ws w1 ->
  utf8_cells input = app w0 (app t w1) -> all_valid (utf8_cells input) ->
  exists f0, forall f, (f0 <= f)%nat -> exists n, parse go_grammar None action_sem pred_sem f input = Accepted (VExpr e) n.
Proof.
  apply (c16_parse_round_trip atom2 atxt2 aexp2).
  - intros [a|a] k; [apply atom_parse| apply e_parse].
  - intros [a|a] k; [apply atom_not_paren| apply e_not_paren].
  - intros [a|a] k; [apply atom_not_not| apply e_not_not].
  - intros [a|a] k; [apply atom_head| apply e_head].
  - apply hdr_parse_c.
  - apply hdr_and_fails_c.
  - apply hdr_head_c.
Qed.
Print Assumptions c16_full_parse.

(* non-vacuity with a quantifier *)
Definition chz (z : Z) : cell := {| crune := z; cbytes := String (ascii_of_N (Z.to_N z)) ""; cvalid := true |}.
Lemma id1 z : class_match cls_id_head z = true -> ident_ok (chz z, []).
Proof. intros H. split; [exact H| constructor]. Qed.

Definition at_x : atom.
Proof. refine {| a_first := (chz 120, []); a_rest := []; a_neg := false |}; [apply id1; reflexivity| constructor| cbn; discriminate]. Defined.

Lemma hdr_name_not_not : map crune [chz 97] <> [110; 111; 116]%Z.
Proof. cbn. discriminate. Qed.
Definition hd_a : chdr.
Proof.
  refine {| h_op := CAny; h_w1x := sp; h_w1 := []; h_sr := of_mixed (chz 97) [] [] eq_refl (Forall_nil _) (Forall_nil _) (or_introl hdr_name_not_not);
            h_w2x := sp; h_w2 := []; h_w3x := sp; h_w3 := [];
            h_bcells := [chz 120]; h_bval := mk_binding BDefault (cells_str [chz 120]) "" ""; h_w4 := [sp];
            h_ws1x := is_ws_sp; h_ws1 := Forall_nil _; h_ws2x := is_ws_sp; h_ws2 := Forall_nil _;
            h_ws3x := is_ws_sp; h_ws3 := Forall_nil _; h_ws4 := Forall_cons _ is_ws_sp (Forall_nil _);
            h_bspec := fun w4 K Hw4 => bind_one_spec (chz 120) [] w4 K eq_refl (Forall_nil _) Hw4;
            h_bfree := fun K => eq_refl; h_nokw := _ |}.
  apply mixed_hdr_nokw. intros kw Hkw. left. unfold hdr_kws in Hkw. cbn [In] in Hkw.
  destruct Hkw as [H|[H|[H|[H|[H|[]]]]]]; subst kw; discriminate.
Defined.

(* a quantified selector that begins like the keywords `is` / `in`: the header family has no condition on first runes *)
Definition items_cells : list cell := [chz 116; chz 101; chz 109; chz 115].
Lemma items_head : class_match cls_id_head (crune (chz 105)) = true. Proof. reflexivity. Qed.
Lemma items_tail : id_tail_ok items_cells. Proof. repeat constructor. Qed.
Lemma items_not_not : map crune (chz 105 :: items_cells) <> [110; 111; 116]%Z \/ (@nil seg) <> []. Proof. left. cbn. discriminate. Qed.
Definition hd_items : chdr.
Proof.
  refine {| h_op := CAny; h_w1x := sp; h_w1 := []; h_sr := of_mixed (chz 105) items_cells [] items_head items_tail (Forall_nil _) items_not_not;
            h_w2x := sp; h_w2 := []; h_w3x := sp; h_w3 := [];
            h_bcells := [chz 120]; h_bval := mk_binding BDefault (cells_str [chz 120]) "" ""; h_w4 := [sp];
            h_ws1x := is_ws_sp; h_ws1 := Forall_nil _; h_ws2x := is_ws_sp; h_ws2 := Forall_nil _;
            h_ws3x := is_ws_sp; h_ws3 := Forall_nil _; h_ws4 := Forall_cons _ is_ws_sp (Forall_nil _);
            h_bspec := fun w4 K Hw4 => bind_one_spec (chz 120) [] w4 K eq_refl (Forall_nil _) Hw4;
            h_bfree := fun K => eq_refl; h_nokw := _ |}.
  apply mixed_hdr_nokw. intros kw Hkw. left. unfold hdr_kws in Hkw. cbn [In] in Hkw.
  destruct Hkw as [H|[H|[H|[H|[H|[]]]]]]; subst kw; cbn; discriminate.
Defined.
Example hd_items_text : h_txt hd_items = utf8_cells "any items as x {".
Proof. vm_compute. reflexivity. Qed.

Definition exq_input := "(any a as x { x is empty }) or any a as x { x is empty }".
Definition exq_body := aexp2 (inl at_x).
Definition exq_coll := EColl CAny (h_sel hd_a) (h_bind hd_a) exq_body.

Example exq_render : exists t, RO (EBin BOr exq_coll exq_coll) t /\ utf8_cells exq_input = app [] (app t []).
Proof.
  assert (Hc : exists tc, RO exq_coll tc /\ tc = app (h_txt hd_a) (app [sp] (app (atxt2 (inl at_x)) (app [sp] K_rb)))).
  { eexists. split; [|reflexivity].
    refine (r_coll atom2 atxt2 aexp2 chdr h_txt h_op h_sel h_bind hd_a exq_body _ [sp] [sp] _ _ _); [|repeat constructor|repeat constructor].
    apply r_or_and. apply r_and_not. apply r_not_par. exact (r_atom atom2 atxt2 aexp2 chdr h_txt h_op h_sel h_bind (inl at_x)). }
  destruct Hc as [tc [Hc Etc]].
  (* a quantifier cannot stand to the left of or without parentheses: wrap the left one *)
  eexists. split.
  - refine (r_or atom2 atxt2 aexp2 chdr h_txt h_op h_sel h_bind _ _ _ _ [sp] [sp] _ _ _ Hc).
    + apply r_and_not. apply r_not_par.
      refine (r_paren atom2 atxt2 aexp2 chdr h_txt h_op h_sel h_bind _ _ [] [] Hc _ _); constructor.
    + split; [discriminate| repeat constructor].
    + split; [discriminate| repeat constructor].
  - subst tc. vm_compute. reflexivity.
Qed.

Example exq_parse : exists n, parse go_grammar None action_sem pred_sem 5000 exq_input = Accepted (VExpr (EBin BOr exq_coll exq_coll)) n.
Proof. eexists. vm_compute. reflexivity. Qed.
