(* Property C09 - Evaluate is total: it never panics, and an error always comes with false. Statements only (proofs: Wt.v, WtEval.v, Hooks.v). Panic is an explicit outcome of the model for every reflect call that panics in Go on the wrong kind; a value-transformation hook is admitted when it preserves well-typedness (hook_ok), which every hook of the harness family does. *)
From Coq Require Import List String ZArith NArith Bool. From Bexpr Require Import Base Strconv Ast Univ Eval Wt WtEval Hooks. Import ListNotations.

Theorem c09_no_panic :
  forall (re : string -> string -> option bool) (cfg : config) (e : expr) (d : rv),
  hook cfg = None -> match unknown cfg with
                     | Some u => rwt u
                     | None => True
                     end -> wf_ast e -> rwt d -> eval re cfg [] e d <> Panic.
Proof. exact WtEval.c09_no_panic. Qed.
Print Assumptions c09_no_panic.

Theorem c09_no_panic_hook :
  forall (re : string -> string -> option bool) (cfg : config) (e : expr) (d : rv),
  hook_ok cfg -> match unknown cfg with
                 | Some u => rwt u
                 | None => True
                 end -> wf_ast e -> rwt d -> eval re cfg [] e d <> Panic.
Proof. exact WtEval.c09_no_panic_hook. Qed.
Print Assumptions c09_no_panic_hook.

Theorem hook_family_ok :
  forall (cfg : config) (n : nat), hook cfg = hook_of n -> hook_ok cfg.
Proof. exact Hooks.hook_family_ok. Qed.
Print Assumptions hook_family_ok.

Theorem hook_none_ok :
  forall cfg : config, hook cfg = None -> hook_ok cfg.
Proof. exact Wt.hook_none_ok. Qed.
Print Assumptions hook_none_ok.

Theorem c09_error_false :
  forall (re : string -> string -> option bool) (cfg : config) (e : expr) (d : iface) (b : bool) (c : errc),
  eval re cfg [] e d = Out b (Some c) -> b = false.
Proof. exact WtEval.c09_error_false. Qed.
Print Assumptions c09_error_false.

Theorem eval_np :
  forall (re : string -> string -> option bool) (cfg : config),
  hook_ok cfg ->
  match unknown cfg with
  | Some u => rwt u
  | None => True
  end -> forall (e : expr) (ls : locals) (d : rv), wf_ast e -> lwt ls -> rwt d -> eval re cfg ls e d <> Panic.
Proof. exact WtEval.eval_np. Qed.
Print Assumptions eval_np.

Theorem eval_errfalse :
  forall (re : string -> string -> option bool) (cfg : config) (e : expr) (ls : locals) (d : iface), errfalse (eval re cfg ls e d).
Proof. exact WtEval.eval_errfalse. Qed.
Print Assumptions eval_errfalse.

