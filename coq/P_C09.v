(* Property C09 - Evaluate is total: it never panics, and an error always comes with false. Statements only (proofs: Wt.v, WtEval.v). Panic is an explicit outcome of the model for every reflect call that panics in Go on the wrong kind. *)
From Coq Require Import List String ZArith NArith Bool. From Bexpr Require Import Base Strconv Ast Univ Eval Wt WtEval. Import ListNotations.

Theorem c09_no_panic :
  forall (re : string -> string -> option bool) (cfg : config) (e : expr) (d : rv),
  hook cfg = None -> match unknown cfg with
                     | Some u => rwt u
                     | None => True
                     end -> wf_ast e -> rwt d -> eval re cfg [] e d <> Panic.
Proof. exact WtEval.c09_no_panic. Qed.
Print Assumptions c09_no_panic.

Theorem c09_error_false :
  forall (re : string -> string -> option bool) (cfg : config) (e : expr) (d : iface) (b : bool) (c : errc),
  eval re cfg [] e d = Out b (Some c) -> b = false.
Proof. exact WtEval.c09_error_false. Qed.
Print Assumptions c09_error_false.

Theorem eval_np :
  forall (re : string -> string -> option bool) (cfg : config),
  hook cfg = None ->
  match unknown cfg with
  | Some u => rwt u
  | None => True
  end -> forall (e : expr) (ls : locals) (d : rv), wf_ast e -> lwt ls -> rwt d -> eval re cfg ls e d <> Panic.
Proof. exact WtEval.eval_np. Qed.
Print Assumptions eval_np.

Theorem eval_errfalse :
  forall (re : string -> string -> option bool) (cfg : config) (e : expr) (ls : locals) (d : iface), errfalse (eval re cfg ls e d).
Proof. exact WtEval.eval_errfalse. Qed.
Print Assumptions eval_errfalse.

