module pegread
go 1.18
