// T2: independent reader of pigeon grammar syntax (grammar.peg) -> Coq terms of the same types as T1 emits.
// Usage: pegread <grammar.peg>  (Coq source on stdout)
package main

import (
	"fmt"
	"go/scanner"
	"go/token"
	"os"
	"strconv"
	"strings"
	"unicode/utf8"
)

type node struct {
	kind  string // choice seq action andcode notcode and not opt star plus labeled ref lit class any
	kids  []*node
	label string
	name  string // ref name
	lit   string
	ic    bool
	raw   string // class raw text
	code  string
	idx   int      // pigeon expression index (for action naming)
	args  []string // labels visible to the code block
}

type parser struct {
	s   string
	pos int
}

func (p *parser) fail(msg string) {
	line := 1 + strings.Count(p.s[:p.pos], "\n")
	fmt.Fprintf(os.Stderr, "pegread: line %d: %s\n", line, msg)
	os.Exit(2)
}

func (p *parser) eof() bool { return p.pos >= len(p.s) }
func (p *parser) peek() byte {
	if p.eof() {
		return 0
	}
	return p.s[p.pos]
}

// skip whitespace and comments
func (p *parser) ws() {
	for !p.eof() {
		c := p.s[p.pos]
		switch {
		case c == ' ' || c == '\t' || c == '\r' || c == '\n':
			p.pos++
		case strings.HasPrefix(p.s[p.pos:], "//"):
			for !p.eof() && p.s[p.pos] != '\n' {
				p.pos++
			}
		case strings.HasPrefix(p.s[p.pos:], "/*"):
			end := strings.Index(p.s[p.pos:], "*/")
			if end < 0 {
				p.fail("unterminated comment")
			}
			p.pos += end + 2
		default:
			return
		}
	}
}

func isIdentStart(c byte) bool {
	return c == '_' || (c >= 'a' && c <= 'z') || (c >= 'A' && c <= 'Z')
}
func isIdentPart(c byte) bool { return isIdentStart(c) || (c >= '0' && c <= '9') }

func (p *parser) ident() string {
	start := p.pos
	if !isIdentStart(p.peek()) {
		return ""
	}
	for !p.eof() && isIdentPart(p.s[p.pos]) {
		p.pos++
	}
	return p.s[start:p.pos]
}

// balanced code block starting at '{'; returns inner text
func (p *parser) codeBlock() string {
	if p.peek() != '{' {
		p.fail("expected code block")
	}
	depth := 0
	start := p.pos
	for !p.eof() {
		c := p.s[p.pos]
		switch c {
		case '{':
			depth++
			p.pos++
		case '}':
			depth--
			p.pos++
			if depth == 0 {
				return p.s[start+1 : p.pos-1]
			}
		case '"':
			p.pos++
			for !p.eof() && p.s[p.pos] != '"' {
				if p.s[p.pos] == '\\' {
					p.pos++
				}
				p.pos++
			}
			p.pos++
		case '`':
			p.pos++
			for !p.eof() && p.s[p.pos] != '`' {
				p.pos++
			}
			p.pos++
		case '\'':
			p.pos++
			for !p.eof() && p.s[p.pos] != '\'' {
				if p.s[p.pos] == '\\' {
					p.pos++
				}
				p.pos++
			}
			p.pos++
		case '/':
			if strings.HasPrefix(p.s[p.pos:], "//") {
				for !p.eof() && p.s[p.pos] != '\n' {
					p.pos++
				}
			} else {
				p.pos++
			}
		default:
			p.pos++
		}
	}
	p.fail("unterminated code block")
	return ""
}

func (p *parser) stringLit() (string, bool) {
	q := p.peek()
	start := p.pos
	p.pos++
	for !p.eof() && p.s[p.pos] != q {
		if p.s[p.pos] == '\\' && q != '`' {
			p.pos++
		}
		p.pos++
	}
	if p.eof() {
		p.fail("unterminated literal")
	}
	p.pos++
	raw := p.s[start:p.pos]
	var val string
	switch q {
	case '"', '`':
		v, err := strconv.Unquote(raw)
		if err != nil {
			p.fail("bad literal " + raw)
		}
		val = v
	case '\'':
		// single-quoted, possibly multi-character: decode escapes one rune at a time
		body := raw[1 : len(raw)-1]
		var sb strings.Builder
		for len(body) > 0 {
			r, _, tail, err := strconv.UnquoteChar(body, '\'')
			if err != nil {
				p.fail("bad literal " + raw)
			}
			sb.WriteRune(r)
			body = tail
		}
		val = sb.String()
	}
	ic := false
	if p.peek() == 'i' && (p.pos+1 >= len(p.s) || !isIdentPart(p.s[p.pos+1])) {
		ic = true
		p.pos++
	}
	return val, ic
}

func (p *parser) classLit() string {
	start := p.pos
	p.pos++
	for !p.eof() && p.s[p.pos] != ']' {
		if p.s[p.pos] == '\\' {
			p.pos++
		}
		p.pos++
	}
	if p.eof() {
		p.fail("unterminated class")
	}
	p.pos++
	if p.peek() == 'i' && (p.pos+1 >= len(p.s) || !isIdentPart(p.s[p.pos+1])) {
		p.pos++
	}
	return p.s[start:p.pos]
}

// is there a rule definition starting here?  Ident ws (string ws)? "<-"
func (p *parser) atRuleStart() bool {
	save := p.pos
	defer func() { p.pos = save }()
	if p.ident() == "" {
		return false
	}
	p.ws()
	if c := p.peek(); c == '"' || c == '\'' || c == '`' {
		p.stringLit()
		p.ws()
	}
	return strings.HasPrefix(p.s[p.pos:], "<-") || strings.HasPrefix(p.s[p.pos:], "←") || strings.HasPrefix(p.s[p.pos:], "⟵") || (p.peek() == '=')
}

func (p *parser) choice() *node {
	first := p.action()
	alts := []*node{first}
	for {
		p.ws()
		if p.peek() == '/' && !strings.HasPrefix(p.s[p.pos:], "//") && !strings.HasPrefix(p.s[p.pos:], "/*") {
			p.pos++
			p.ws()
			alts = append(alts, p.action())
			continue
		}
		break
	}
	if len(alts) == 1 {
		return first
	}
	return &node{kind: "choice", kids: alts}
}

func (p *parser) action() *node {
	seq := p.seq()
	p.ws()
	if p.peek() == '{' {
		code := p.codeBlock()
		return &node{kind: "action", kids: []*node{seq}, code: code}
	}
	return seq
}

func (p *parser) seq() *node {
	var items []*node
	for {
		p.ws()
		if p.eof() {
			break
		}
		c := p.peek()
		if c == '/' || c == ')' || c == '{' {
			break
		}
		if isIdentStart(c) && p.atRuleStart() {
			break
		}
		items = append(items, p.labeled())
	}
	if len(items) == 0 {
		p.fail("empty sequence")
	}
	if len(items) == 1 {
		return items[0]
	}
	return &node{kind: "seq", kids: items}
}

func (p *parser) labeled() *node {
	save := p.pos
	if id := p.ident(); id != "" {
		p.ws()
		if p.peek() == ':' {
			p.pos++
			p.ws()
			return &node{kind: "labeled", label: id, kids: []*node{p.prefixed()}}
		}
	}
	p.pos = save
	return p.prefixed()
}

func (p *parser) prefixed() *node {
	c := p.peek()
	if c == '&' || c == '!' {
		if p.pos+1 < len(p.s) && p.s[p.pos+1] == '{' {
			p.pos++
			code := p.codeBlock()
			k := "andcode"
			if c == '!' {
				k = "notcode"
			}
			return &node{kind: k, code: code}
		}
		p.pos++
		p.ws()
		k := "and"
		if c == '!' {
			k = "not"
		}
		return &node{kind: k, kids: []*node{p.suffixed()}}
	}
	return p.suffixed()
}

func (p *parser) suffixed() *node {
	n := p.primary()
	p.ws()
	switch p.peek() {
	case '?':
		p.pos++
		return &node{kind: "opt", kids: []*node{n}}
	case '*':
		p.pos++
		return &node{kind: "star", kids: []*node{n}}
	case '+':
		p.pos++
		return &node{kind: "plus", kids: []*node{n}}
	}
	return n
}

func (p *parser) primary() *node {
	c := p.peek()
	switch {
	case c == '"' || c == '\'' || c == '`':
		v, ic := p.stringLit()
		return &node{kind: "lit", lit: v, ic: ic}
	case c == '[':
		return &node{kind: "class", raw: p.classLit()}
	case c == '.':
		p.pos++
		return &node{kind: "any"}
	case c == '(':
		p.pos++
		p.ws()
		n := p.choice()
		p.ws()
		if p.peek() != ')' {
			p.fail("expected )")
		}
		p.pos++
		return n
	case isIdentStart(c):
		return &node{kind: "ref", name: p.ident()}
	}
	p.fail(fmt.Sprintf("unexpected %q", c))
	return nil
}

type rule struct {
	name, display string
	expr          *node
}

// number nodes in pre-order and compute visible labels (pigeon's args sets:
// one per rule and per choice alternative; a code block sees the labels
// added to the innermost set so far).
func number(n *node, idx *int, args *[]string) {
	*idx++
	n.idx = *idx
	switch n.kind {
	case "choice":
		for _, k := range n.kids {
			var set []string
			number(k, idx, &set)
		}
	case "action":
		number(n.kids[0], idx, args)
		n.args = append([]string(nil), *args...)
	case "andcode", "notcode":
		n.args = append([]string(nil), *args...)
	case "labeled":
		*args = append(*args, n.label)
		number(n.kids[0], idx, args)
	default:
		for _, k := range n.kids {
			number(k, idx, args)
		}
	}
}

func coqStr(s string) string { return `"` + strings.ReplaceAll(s, `"`, `""`) + `"` }
func runes(s string) string {
	var parts []string
	for _, r := range s {
		parts = append(parts, strconv.Itoa(int(r)))
	}
	return "[" + strings.Join(parts, "; ") + "]%Z"
}
func zlist(xs []rune) string {
	if len(xs) == 0 {
		return "[]"
	}
	var p []string
	for _, x := range xs {
		p = append(p, strconv.Itoa(int(x)))
	}
	return "[" + strings.Join(p, "; ") + "]%Z"
}

// pigeon's CharClassMatcher.parse
func parseClass(raw string) (chars, ranges []rune, classes []string, ic, inv bool) {
	if strings.HasSuffix(raw, "i") {
		ic = true
		raw = raw[:len(raw)-1]
	}
	raw = raw[1 : len(raw)-1]
	if len(raw) == 0 {
		return
	}
	if raw[0] == '^' {
		inv = true
		raw = raw[1:]
	}
	var all []rune
	for len(raw) > 0 {
		r, sz := utf8.DecodeRuneInString(raw)
		raw = raw[sz:]
		if r != '\\' {
			all = append(all, r)
			continue
		}
		r, sz = utf8.DecodeRuneInString(raw)
		switch r {
		case ']':
			raw = raw[sz:]
			all = append(all, ']')
			continue
		case 'p':
			raw = raw[sz:]
			r2, sz2 := utf8.DecodeRuneInString(raw)
			raw = raw[sz2:]
			if r2 == '{' {
				end := strings.IndexByte(raw, '}')
				classes = append(classes, raw[:end])
				raw = raw[end+1:]
			} else {
				classes = append(classes, string(r2))
			}
			continue
		}
		v, _, tail, err := strconv.UnquoteChar("\\"+raw, 0)
		if err != nil {
			fmt.Fprintf(os.Stderr, "bad class escape\n")
			os.Exit(2)
		}
		raw = tail
		all = append(all, v)
	}
	inRange, wasRange := false, false
	for i, r := range all {
		if inRange {
			ranges = append(ranges, r)
			inRange, wasRange = false, true
			continue
		}
		if r == '-' && !wasRange && len(chars) > 0 && i < len(all)-1 {
			inRange, wasRange = true, false
			ranges = append(ranges, chars[len(chars)-1])
			chars = chars[:len(chars)-1]
			continue
		}
		wasRange = false
		chars = append(chars, r)
	}
	return
}

func emit(rname string, n *node, ind string) string {
	ni := ind + " "
	list := func(ks []*node) string {
		var parts []string
		for _, k := range ks {
			parts = append(parts, emit(rname, k, ni))
		}
		return "[\n" + ni + strings.Join(parts, ";\n"+ni) + "]"
	}
	switch n.kind {
	case "choice":
		return "PChoice " + list(n.kids)
	case "seq":
		return "PSeq " + list(n.kids)
	case "action":
		return "PAction " + coqStr(fmt.Sprintf("%s%d", rname, n.idx)) + " (" + emit(rname, n.kids[0], ni) + ")"
	case "andcode":
		return "PAndCode " + coqStr(fmt.Sprintf("%s%d", rname, n.idx))
	case "notcode":
		return "PNotCode " + coqStr(fmt.Sprintf("%s%d", rname, n.idx))
	case "labeled":
		return "PLabeled " + coqStr(n.label) + " (" + emit(rname, n.kids[0], ni) + ")"
	case "ref":
		return "PRef " + coqStr(n.name)
	case "lit":
		return "PLit " + runes(n.lit) + " " + strconv.FormatBool(n.ic)
	case "class":
		chars, ranges, classes, ic, inv := parseClass(n.raw)
		var cs []string
		for _, c := range classes {
			cs = append(cs, coqStr(c))
		}
		return fmt.Sprintf("PClass {| cc_val := %s; cc_chars := %s; cc_ranges := %s; cc_classes := [%s]; cc_ignore_case := %v; cc_inverted := %v |}",
			coqStr(n.raw), zlist(chars), zlist(ranges), strings.Join(cs, "; "), ic, inv)
	case "any":
		return "PAny"
	case "not":
		return "PNot (" + emit(rname, n.kids[0], ni) + ")"
	case "and":
		return "PAnd (" + emit(rname, n.kids[0], ni) + ")"
	case "opt":
		return "POpt (" + emit(rname, n.kids[0], ni) + ")"
	case "star":
		return "PStar (" + emit(rname, n.kids[0], ni) + ")"
	case "plus":
		return "PPlus (" + emit(rname, n.kids[0], ni) + ")"
	}
	panic(n.kind)
}

type actrec struct {
	name string
	args []string
	toks []string
}

// codeTokens returns the Go token stream of a code block (comments kept, automatic semicolons dropped).
func codeTokens(code string) []string {
	src := []byte(code)
	fs := token.NewFileSet()
	f := fs.AddFile("", fs.Base(), len(src))
	var sc scanner.Scanner
	sc.Init(f, src, func(pos token.Position, msg string) {
		fmt.Fprintf(os.Stderr, "pegread: code block: %s\n", msg)
		os.Exit(2)
	}, scanner.ScanComments)
	var out []string
	for {
		_, tok, lit := sc.Scan()
		if tok == token.EOF {
			break
		}
		if tok == token.SEMICOLON && lit == "\n" {
			continue
		}
		switch {
		case tok == token.COMMENT:
			out = append(out, strings.TrimSpace(lit))
		case lit != "" && tok != token.SEMICOLON:
			out = append(out, lit)
		default:
			out = append(out, tok.String())
		}
	}
	return out
}

func collect(rname string, n *node, out *[]actrec) {
	if n.kind == "action" || n.kind == "andcode" || n.kind == "notcode" {
		*out = append(*out, actrec{fmt.Sprintf("%s%d", rname, n.idx), n.args, codeTokens(n.code)})
	}
	for _, k := range n.kids {
		collect(rname, k, out)
	}
}

func strList(xs []string) string {
	var p []string
	for _, x := range xs {
		p = append(p, coqStr(x))
	}
	return "[" + strings.Join(p, "; ") + "]"
}

func main() {
	b, err := os.ReadFile(os.Args[1])
	if err != nil {
		panic(err)
	}
	p := &parser{s: string(b)}
	p.ws()
	if p.peek() == '{' {
		p.codeBlock() // initializer
	}
	var rules []rule
	for {
		p.ws()
		if p.eof() {
			break
		}
		name := p.ident()
		if name == "" {
			p.fail("expected rule name")
		}
		p.ws()
		display := ""
		if c := p.peek(); c == '"' || c == '\'' || c == '`' {
			start := p.pos
			p.stringLit()
			display = p.s[start:p.pos] // pigeon keeps the quoted source text
			p.ws()
		}
		switch {
		case strings.HasPrefix(p.s[p.pos:], "<-"):
			p.pos += 2
		case strings.HasPrefix(p.s[p.pos:], "←"):
			p.pos += len("←")
		case strings.HasPrefix(p.s[p.pos:], "⟵"):
			p.pos += len("⟵")
		case p.peek() == '=':
			p.pos++
		default:
			p.fail("expected <-")
		}
		p.ws()
		e := p.choice()
		idx := 0
		var args []string
		number(e, &idx, &args)
		rules = append(rules, rule{name, display, e})
	}
	fmt.Println("(* generated by tools/pegread from grammar/grammar.peg - do not edit *)")
	fmt.Println("From Bexpr Require Import Base Ast Unicode Peg. From Coq Require Import List ZArith String. Import ListNotations. Open Scope string_scope.")
	fmt.Println("Definition peg_grammar : list rule := [")
	for i, r := range rules {
		sep := ";"
		if i == len(rules)-1 {
			sep = ""
		}
		fmt.Printf(" {| rname := %s; rdisplay := %s; rexpr :=\n  %s |}%s\n", coqStr(r.name), coqStr(r.display), emit(r.name, r.expr, "  "), sep)
	}
	fmt.Println("].")
	var acts []actrec
	for _, r := range rules {
		collect(r.name, r.expr, &acts)
	}
	fmt.Println("(* name, labels visible to the code block (pigeon's argument rule), token stream of the code block *)")
	fmt.Println("Definition peg_actions : list (string * list string * list string) := [")
	for i, a := range acts {
		sep := ";"
		if i == len(acts)-1 {
			sep = ""
		}
		fmt.Printf(" (%s, %s,\n   %s)%s\n", coqStr(a.name), strList(a.args), strList(a.toks), sep)
	}
	fmt.Println("].")
}
