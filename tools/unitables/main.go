package main

import (
	"fmt"
	"unicode"
)

func dump(name string, t *unicode.RangeTable) {
	fmt.Printf("Definition %s : list (Z * Z * Z) := [\n", name)
	first := true
	p := func(lo, hi, st uint32) {
		if !first {
			fmt.Print(";\n")
		}
		first = false
		fmt.Printf(" (%d, %d, %d)", lo, hi, st)
	}
	for _, r := range t.R16 {
		p(uint32(r.Lo), uint32(r.Hi), uint32(r.Stride))
	}
	for _, r := range t.R32 {
		p(r.Lo, r.Hi, r.Stride)
	}
	fmt.Print("]%Z.\n\n")
}

func main() {
	fmt.Println("From Coq Require Import List ZArith.\nImport ListNotations.\n")
	dump("uni_L", unicode.L)
	dump("uni_N", unicode.N)
	dumpPrint()
}
