package main

import (
	"fmt"
	"strconv"
)

// ranges of runes for which strconv.IsPrint holds (what %q leaves unescaped)
func dumpPrint() {
	fmt.Println("Definition go_is_print : list (Z * Z) := [")
	first := true
	start := -1
	for r := 0; r <= 0x110000; r++ {
		p := r <= 0x10FFFF && strconv.IsPrint(rune(r))
		if p && start < 0 {
			start = r
		}
		if !p && start >= 0 {
			if !first {
				fmt.Print(";\n")
			}
			first = false
			fmt.Printf(" (%d, %d)", start, r-1)
			start = -1
		}
	}
	fmt.Print("]%Z.\n")
}
