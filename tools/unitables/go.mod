module unitables
go 1.18
