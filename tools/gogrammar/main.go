// T1: translate `var g` and the on*/callon* functions of grammar.go into Coq terms.
// Usage: gogrammar <grammar.go>  (Coq source on stdout; any unrecognised shape is a fatal error)
package main

import (
	"fmt"
	"go/ast"
	"go/parser"
	"go/scanner"
	"go/token"
	"os"
	"strconv"
	"strings"
)

func die(f string, a ...interface{}) { fmt.Fprintf(os.Stderr, f+"\n", a...); os.Exit(2) }

func coqStr(s string) string { return `"` + strings.ReplaceAll(s, `"`, `""`) + `"` }

func runes(s string) string {
	var parts []string
	for _, r := range s {
		parts = append(parts, strconv.Itoa(int(r)))
	}
	return "[" + strings.Join(parts, "; ") + "]%Z"
}

func strLit(e ast.Expr) string {
	bl, ok := e.(*ast.BasicLit)
	if !ok || bl.Kind != token.STRING {
		die("expected string literal, got %T", e)
	}
	s, err := strconv.Unquote(bl.Value)
	if err != nil {
		die("unquote: %v", err)
	}
	return s
}

func runeLits(e ast.Expr) []int {
	cl := e.(*ast.CompositeLit)
	var out []int
	for _, el := range cl.Elts {
		bl := el.(*ast.BasicLit)
		if bl.Kind != token.CHAR {
			die("expected rune literal")
		}
		r, _, _, err := strconv.UnquoteChar(bl.Value[1:len(bl.Value)-1], '\'')
		if err != nil {
			die("rune: %v", err)
		}
		out = append(out, int(r))
	}
	return out
}

func zlist(xs []int) string {
	var p []string
	for _, x := range xs {
		p = append(p, strconv.Itoa(x))
	}
	return "[" + strings.Join(p, "; ") + "]%Z"
}

func fields(cl *ast.CompositeLit) map[string]ast.Expr {
	m := map[string]ast.Expr{}
	for _, el := range cl.Elts {
		kv, ok := el.(*ast.KeyValueExpr)
		if !ok {
			die("non key-value element")
		}
		m[kv.Key.(*ast.Ident).Name] = kv.Value
	}
	return m
}

func runName(e ast.Expr) string {
	// (*parser).callonInput2
	sel, ok := e.(*ast.SelectorExpr)
	if !ok {
		die("run: %T", e)
	}
	return strings.TrimPrefix(sel.Sel.Name, "callon")
}

var wantMismatch []string
var wrapperMismatch []string

func expr(e ast.Expr, ind string) string {
	u, ok := e.(*ast.UnaryExpr)
	if !ok || u.Op != token.AND {
		die("expected &T{...}, got %T", e)
	}
	cl := u.X.(*ast.CompositeLit)
	tn := cl.Type.(*ast.Ident).Name
	f := fields(cl)
	ni := ind + " "
	list := func(e ast.Expr) string {
		var parts []string
		for _, el := range e.(*ast.CompositeLit).Elts {
			parts = append(parts, expr(el, ni))
		}
		return "[\n" + ni + strings.Join(parts, ";\n"+ni) + "]"
	}
	switch tn {
	case "choiceExpr":
		return "PChoice " + list(f["alternatives"])
	case "seqExpr":
		return "PSeq " + list(f["exprs"])
	case "actionExpr":
		return "PAction " + coqStr(runName(f["run"])) + " (" + expr(f["expr"], ni) + ")"
	case "andCodeExpr":
		return "PAndCode " + coqStr(runName(f["run"]))
	case "notCodeExpr":
		return "PNotCode " + coqStr(runName(f["run"]))
	case "labeledExpr":
		return "PLabeled " + coqStr(strLit(f["label"])) + " (" + expr(f["expr"], ni) + ")"
	case "ruleRefExpr":
		return "PRef " + coqStr(strLit(f["name"]))
	case "litMatcher":
		ic := f["ignoreCase"].(*ast.Ident).Name
		// `want` only shapes error messages; it must be the quoted literal (plus i when case is ignored)
		w := strconv.Quote(strLit(f["val"]))
		if ic == "true" {
			w += "i"
		}
		if got := strLit(f["want"]); got != w {
			wantMismatch = append(wantMismatch, got)
		}
		return "PLit " + runes(strLit(f["val"])) + " " + ic
	case "charClassMatcher":
		chars, ranges := "[]", "[]"
		if c, ok := f["chars"]; ok {
			chars = zlist(runeLits(c))
		}
		if c, ok := f["ranges"]; ok {
			ranges = zlist(runeLits(c))
		}
		var classes []string
		if c, ok := f["classes"]; ok {
			for _, el := range c.(*ast.CompositeLit).Elts {
				call := el.(*ast.CallExpr)
				classes = append(classes, coqStr(strLit(call.Args[0])))
			}
		}
		return fmt.Sprintf("PClass {| cc_val := %s; cc_chars := %s; cc_ranges := %s; cc_classes := [%s]; cc_ignore_case := %s; cc_inverted := %s |}",
			coqStr(strLit(f["val"])), chars, ranges, strings.Join(classes, "; "), f["ignoreCase"].(*ast.Ident).Name, f["inverted"].(*ast.Ident).Name)
	case "anyMatcher":
		return "PAny"
	case "notExpr":
		return "PNot (" + expr(f["expr"], ni) + ")"
	case "andExpr":
		return "PAnd (" + expr(f["expr"], ni) + ")"
	case "zeroOrOneExpr":
		return "POpt (" + expr(f["expr"], ni) + ")"
	case "zeroOrMoreExpr":
		return "PStar (" + expr(f["expr"], ni) + ")"
	case "oneOrMoreExpr":
		return "PPlus (" + expr(f["expr"], ni) + ")"
	}
	die("unsupported node type %s", tn)
	return ""
}

// tokens returns the Go token stream of src (comments kept, automatic semicolons dropped).
func tokens(src []byte) []string {
	fs := token.NewFileSet()
	f := fs.AddFile("", fs.Base(), len(src))
	var sc scanner.Scanner
	sc.Init(f, src, func(pos token.Position, msg string) { die("scan: %s", msg) }, scanner.ScanComments)
	var out []string
	for {
		_, tok, lit := sc.Scan()
		if tok == token.EOF {
			break
		}
		if tok == token.SEMICOLON && lit == "\n" {
			continue
		}
		switch {
		case tok == token.COMMENT:
			out = append(out, strings.TrimSpace(lit))
		case lit != "" && tok != token.SEMICOLON:
			out = append(out, lit)
		default:
			out = append(out, tok.String())
		}
	}
	return out
}

func strList(xs []string) string {
	var p []string
	for _, x := range xs {
		p = append(p, coqStr(x))
	}
	return "[" + strings.Join(p, "; ") + "]"
}

func recvName(fd *ast.FuncDecl) string {
	if fd.Recv == nil || len(fd.Recv.List) != 1 {
		return ""
	}
	st, ok := fd.Recv.List[0].Type.(*ast.StarExpr)
	if !ok {
		return ""
	}
	id, ok := st.X.(*ast.Ident)
	if !ok {
		return ""
	}
	return id.Name
}

func main() {
	fset := token.NewFileSet()
	src, err := os.ReadFile(os.Args[1])
	if err != nil {
		die("%v", err)
	}
	file, err := parser.ParseFile(fset, os.Args[1], src, parser.ParseComments)
	if err != nil {
		die("%v", err)
	}
	fmt.Println("(* generated by tools/gogrammar from grammar/grammar.go - do not edit *)")
	fmt.Println("From Bexpr Require Import Base Ast Unicode Peg. From Coq Require Import List ZArith String. Import ListNotations. Open Scope string_scope.")
	found := false
	for _, d := range file.Decls {
		gd, ok := d.(*ast.GenDecl)
		if !ok || gd.Tok != token.VAR {
			continue
		}
		for _, sp := range gd.Specs {
			vs := sp.(*ast.ValueSpec)
			if vs.Names[0].Name != "g" {
				continue
			}
			found = true
			cl := vs.Values[0].(*ast.UnaryExpr).X.(*ast.CompositeLit)
			rules := fields(cl)["rules"].(*ast.CompositeLit)
			fmt.Println("Definition go_grammar : list rule := [")
			for i, r := range rules.Elts {
				f := fields(r.(*ast.CompositeLit))
				dn := ""
				if d, ok := f["displayName"]; ok {
					dn = strLit(d)
				}
				sep := ";"
				if i == len(rules.Elts)-1 {
					sep = ""
				}
				fmt.Printf(" {| rname := %s; rdisplay := %s; rexpr :=\n  %s |}%s\n", coqStr(strLit(f["name"])), coqStr(dn), expr(f["expr"], "  "), sep)
			}
			fmt.Println("].")
		}
	}
	if !found {
		die("var g not found")
	}
	fmt.Println("(* `want` strings of literal matchers that are not the quoted literal itself *)")
	fmt.Printf("Definition go_want_mismatches : list string := %s.\n", strList(wantMismatch))
	// actions: (c *current) onX(params) bodies and the labels the (p *parser) callonX wrapper passes
	type act struct {
		name           string
		params, labels []string
		toks           []string
		haveCall       bool
	}
	var acts []*act
	byName := map[string]*act{}
	for _, d := range file.Decls {
		fd, ok := d.(*ast.FuncDecl)
		if !ok {
			continue
		}
		switch {
		case recvName(fd) == "current" && strings.HasPrefix(fd.Name.Name, "on"):
			a := &act{name: strings.TrimPrefix(fd.Name.Name, "on")}
			for _, p := range fd.Type.Params.List {
				for _, n := range p.Names {
					a.params = append(a.params, n.Name)
				}
			}
			lo, hi := fset.Position(fd.Body.Lbrace).Offset+1, fset.Position(fd.Body.Rbrace).Offset
			a.toks = tokens(src[lo:hi])
			acts = append(acts, a)
			byName[a.name] = a
		case recvName(fd) == "parser" && strings.HasPrefix(fd.Name.Name, "callon"):
			a := byName[strings.TrimPrefix(fd.Name.Name, "callon")]
			if a == nil {
				die("callon wrapper %s before its action", fd.Name.Name)
			}
			// last statement: return p.cur.onX(stack["l1"], ...)
			if len(fd.Body.List) == 0 {
				die("empty wrapper %s", fd.Name.Name)
			}
			ret, ok := fd.Body.List[len(fd.Body.List)-1].(*ast.ReturnStmt)
			if !ok || len(ret.Results) != 1 {
				die("wrapper %s: unexpected shape", fd.Name.Name)
			}
			call, ok := ret.Results[0].(*ast.CallExpr)
			if !ok {
				die("wrapper %s: unexpected shape", fd.Name.Name)
			}
			if sel, ok := call.Fun.(*ast.SelectorExpr); !ok || sel.Sel.Name != "on"+a.name {
				callee := "?"
				if ok {
					callee = sel.Sel.Name
				}
				wrapperMismatch = append(wrapperMismatch, fd.Name.Name+" calls "+callee)
			}
			for _, arg := range call.Args {
				ix, ok := arg.(*ast.IndexExpr)
				if !ok {
					die("wrapper %s: argument is not stack[...]", fd.Name.Name)
				}
				a.labels = append(a.labels, strLit(ix.Index))
			}
			a.haveCall = true
		}
	}
	fmt.Println("(* callon<name> wrappers that do not call on<name> *)")
	fmt.Printf("Definition go_wrapper_mismatches : list string := %s.\n", strList(wrapperMismatch))
	fmt.Println("(* name, parameters of on<name>, labels passed by callon<name>, token stream of the body *)")
	fmt.Println("Definition go_actions : list (string * list string * list string * list string) := [")
	for i, a := range acts {
		if !a.haveCall {
			die("action %s has no callon wrapper", a.name)
		}
		sep := ";"
		if i == len(acts)-1 {
			sep = ""
		}
		fmt.Printf(" (%s, %s, %s,\n   %s)%s\n", coqStr(a.name), strList(a.params), strList(a.labels), strList(a.toks), sep)
	}
	fmt.Println("].")
}
