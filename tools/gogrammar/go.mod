module gogrammar
go 1.18
