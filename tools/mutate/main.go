// Development tool (not used by the checks): enumerate simple syntactic mutants of a Go file.
//
//	mutate count <file>            prints the number of mutation points
//	mutate apply <file> <i>        prints the file with mutation i applied (to stdout) and a description to stderr
package main

import (
	"bytes"
	"fmt"
	"go/ast"
	"go/parser"
	"go/printer"
	"go/token"
	"os"
	"strconv"
)

type mutation struct {
	desc  string
	apply func()
}

func collect(f *ast.File, fset *token.FileSet) []mutation {
	var ms []mutation
	pos := func(n ast.Node) string { return fset.Position(n.Pos()).String() }
	swap := map[token.Token][]token.Token{
		token.EQL: {token.NEQ}, token.NEQ: {token.EQL}, token.LSS: {token.LEQ, token.GEQ}, token.LEQ: {token.LSS}, token.GTR: {token.GEQ, token.LEQ}, token.GEQ: {token.GTR},
		token.LAND: {token.LOR}, token.LOR: {token.LAND}, token.ADD: {token.SUB}, token.SUB: {token.ADD},
	}
	ast.Inspect(f, func(n ast.Node) bool {
		switch x := n.(type) {
		case *ast.BinaryExpr:
			for _, t := range swap[x.Op] {
				be, nt, old := x, t, x.Op
				ms = append(ms, mutation{fmt.Sprintf("%s: %s -> %s", pos(be), old, nt), func() { be.Op = nt }})
			}
		case *ast.UnaryExpr:
			if x.Op == token.NOT {
				ms = append(ms, mutation{fmt.Sprintf("%s: drop !", pos(x)), func() {}})
			}
		case *ast.IfStmt:
			ms = append(ms, mutation{fmt.Sprintf("%s: negate if condition", pos(x)), func() { x.Cond = &ast.UnaryExpr{Op: token.NOT, X: &ast.ParenExpr{X: x.Cond}} }})
			if x.Else == nil {
				ms = append(ms, mutation{fmt.Sprintf("%s: if condition -> false (skip the branch)", pos(x)), func() {
					x.Cond = &ast.BinaryExpr{X: &ast.ParenExpr{X: x.Cond}, Op: token.LAND, Y: ast.NewIdent("false")}
				}})
			}
		case *ast.BasicLit:
			if x.Kind == token.INT && (x.Value == "0" || x.Value == "1") {
				nv := map[string]string{"0": "1", "1": "0"}[x.Value]
				ms = append(ms, mutation{fmt.Sprintf("%s: %s -> %s", pos(x), x.Value, nv), func() { x.Value = nv }})
			}
		case *ast.Ident:
			if x.Name == "true" || x.Name == "false" {
				nv := map[string]string{"true": "false", "false": "true"}[x.Name]
				ms = append(ms, mutation{fmt.Sprintf("%s: %s -> %s", pos(x), x.Name, nv), func() { x.Name = nv }})
			}
		case *ast.BlockStmt:
			for i, st := range x.List {
				switch st.(type) {
				case *ast.ExprStmt, *ast.AssignStmt, *ast.IncDecStmt, *ast.BranchStmt:
					if as, ok := st.(*ast.AssignStmt); ok && as.Tok == token.DEFINE {
						continue
					}
					blk, idx := x, i
					ms = append(ms, mutation{fmt.Sprintf("%s: delete statement", pos(st)), func() { blk.List[idx] = &ast.EmptyStmt{} }})
				}
			}
		case *ast.CaseClause:
			if len(x.List) > 1 {
				for i := range x.List {
					idx := i
					ms = append(ms, mutation{fmt.Sprintf("%s: drop case label %d", pos(x), idx), func() { x.List = append(append([]ast.Expr{}, x.List[:idx]...), x.List[idx+1:]...) }})
				}
			}
		}
		return true
	})
	return ms
}

func main() {
	fset := token.NewFileSet()
	f, err := parser.ParseFile(fset, os.Args[2], nil, parser.ParseComments)
	if err != nil {
		fmt.Fprintln(os.Stderr, err)
		os.Exit(2)
	}
	ms := collect(f, fset)
	switch os.Args[1] {
	case "count":
		fmt.Println(len(ms))
	case "list":
		for i, m := range ms {
			fmt.Println(i, m.desc)
		}
	case "apply":
		i, _ := strconv.Atoi(os.Args[3])
		if i < 0 || i >= len(ms) {
			os.Exit(3)
		}
		m := ms[i]
		// "drop !" is done by replacing the node in its parent: simplest is textual - re-walk and substitute
		if len(m.desc) > 6 && m.desc[len(m.desc)-6:] == "drop !" {
			dropNot(f, fset, m.desc)
		} else {
			m.apply()
		}
		fmt.Fprintln(os.Stderr, m.desc)
		var buf bytes.Buffer
		printer.Fprint(&buf, fset, f)
		os.Stdout.Write(buf.Bytes())
	}
}

// dropNot replaces the !x whose position is in desc by (x)
func dropNot(f *ast.File, fset *token.FileSet, desc string) {
	var target *ast.UnaryExpr
	ast.Inspect(f, func(n ast.Node) bool {
		if u, ok := n.(*ast.UnaryExpr); ok && u.Op == token.NOT && fmt.Sprintf("%s: drop !", fset.Position(u.Pos())) == desc {
			target = u
		}
		return true
	})
	if target == nil {
		return
	}
	// !x  ->  !!x  (double negation = x) keeps the tree well-formed without touching the parent
	target.X = &ast.UnaryExpr{Op: token.NOT, X: &ast.ParenExpr{X: target.X}}
}
