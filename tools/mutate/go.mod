module mutate

go 1.23
