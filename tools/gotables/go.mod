module gotables
go 1.18
