// Spike: extract the table-shaped parts of go-bexpr into Coq definitions.
package main

import (
	"fmt"
	"go/ast"
	"go/parser"
	"go/printer"
	"go/token"
	"os"
	"path/filepath"
	"strconv"
	"strings"
)

func die(f string, a ...interface{}) { fmt.Fprintf(os.Stderr, "gotables: "+f+"\n", a...); os.Exit(2) }
func cs(s string) string             { return `"` + strings.ReplaceAll(s, `"`, `""`) + `"` }

func parse(path string) *ast.File {
	f, err := parser.ParseFile(token.NewFileSet(), path, nil, parser.ParseComments)
	if err != nil {
		die("%v", err)
	}
	return f
}

func funcDecl(f *ast.File, recv, name string) *ast.FuncDecl {
	for _, d := range f.Decls {
		fd, ok := d.(*ast.FuncDecl)
		if !ok || fd.Name.Name != name {
			continue
		}
		r := ""
		if fd.Recv != nil && len(fd.Recv.List) == 1 {
			switch t := fd.Recv.List[0].Type.(type) {
			case *ast.Ident:
				r = t.Name
			case *ast.StarExpr:
				r = t.X.(*ast.Ident).Name
			}
		}
		if r == recv {
			return fd
		}
	}
	die("function %s.%s not found", recv, name)
	return nil
}

func funcDeclOrNil(f *ast.File, name string) *ast.FuncDecl {
	for _, d := range f.Decls {
		if fd, ok := d.(*ast.FuncDecl); ok && fd.Recv == nil && fd.Name.Name == name {
			return fd
		}
	}
	return nil
}

// anyExprText renders any expression as source text (used where the shape of the expression is not prescribed).
func anyExprText(e ast.Expr) string {
	var sb strings.Builder
	if err := printer.Fprint(&sb, token.NewFileSet(), e); err != nil {
		return fmt.Sprintf("%T", e)
	}
	return strings.Join(strings.Fields(sb.String()), " ")
}

func exprText(e ast.Expr) string {
	switch x := e.(type) {
	case *ast.Ident:
		return x.Name
	case *ast.SelectorExpr:
		return exprText(x.X) + "." + x.Sel.Name
	case *ast.BasicLit:
		if x.Kind == token.STRING {
			s, _ := strconv.Unquote(x.Value)
			return s
		}
		return x.Value
	}
	die("unsupported expression %T", e)
	return ""
}

// the single top-level `switch tag { case A, B: return X ... default: return Y }` of a function
func switchTable(fd *ast.FuncDecl) (rows [][2]string, def string, hasDef bool) {
	var sw *ast.SwitchStmt
	for _, st := range fd.Body.List {
		if s, ok := st.(*ast.SwitchStmt); ok {
			if sw != nil {
				die("%s: more than one switch", fd.Name.Name)
			}
			sw = s
		}
	}
	if sw == nil {
		die("%s: no switch", fd.Name.Name)
	}
	for _, c := range sw.Body.List {
		cc := c.(*ast.CaseClause)
		var ret string
		found := false
		for _, st := range cc.Body {
			if r, ok := st.(*ast.ReturnStmt); ok && !found {
				if len(r.Results) < 1 {
					die("%s: empty return", fd.Name.Name)
				}
				switch v := r.Results[0].(type) {
				case *ast.CallExpr:
					ret = exprText(v.Fun) // e.g. CoerceBool(expression.Value.Raw)
				default:
					ret = exprText(v)
				}
				found = true
			}
		}
		if !found {
			die("%s: case without a return", fd.Name.Name)
		}
		if cc.List == nil {
			def, hasDef = ret, true
			continue
		}
		for _, e := range cc.List {
			rows = append(rows, [2]string{exprText(e), ret})
		}
	}
	return
}

// caseKinds: the case labels of the non-default clauses of the function's only switch (never fatal: a function whose
// shape is not recognised yields a marker, so that only the statements about this table stop checking)
func caseKinds(fd *ast.FuncDecl) (out []string) {
	defer func() {
		if recover() != nil {
			out = []string{"<unrecognised>"}
		}
	}()
	if fd == nil || fd.Body == nil {
		return []string{"<unrecognised>"}
	}
	var sw *ast.SwitchStmt
	for _, st := range fd.Body.List {
		if s, ok := st.(*ast.SwitchStmt); ok {
			if sw != nil {
				return []string{"<unrecognised>"}
			}
			sw = s
		}
	}
	if sw == nil {
		return []string{"<unrecognised>"}
	}
	if tag := anyExprText(sw.Tag); tag != "value.Kind()" {
		return []string{"<unrecognised switch on " + tag + ">"}
	}
	for _, c := range sw.Body.List {
		cc := c.(*ast.CaseClause)
		for _, e := range cc.List {
			out = append(out, anyExprText(e))
		}
	}
	return
}

func emitTable(name string, rows [][2]string) {
	fmt.Printf("Definition %s : list (string * string) := [\n", name)
	for i, r := range rows {
		sep := ";"
		if i == len(rows)-1 {
			sep = ""
		}
		fmt.Printf("  (%s, %s)%s\n", cs(r[0]), cs(r[1]), sep)
	}
	fmt.Println("].")
}

// const blocks: names in declaration order for a given type (iota enums) or name=string-value pairs
func constBlock(f *ast.File, typ string) (names []string, values []string) {
	for _, d := range f.Decls {
		gd, ok := d.(*ast.GenDecl)
		if !ok || gd.Tok != token.CONST {
			continue
		}
		cur := ""
		for _, sp := range gd.Specs {
			vs := sp.(*ast.ValueSpec)
			if vs.Type != nil {
				cur = exprText(vs.Type)
			} else if len(vs.Values) > 0 {
				cur = "" // untyped with explicit value
			}
			if cur == typ {
				for i, n := range vs.Names {
					names = append(names, n.Name)
					if len(vs.Values) > i {
						values = append(values, exprText(vs.Values[i]))
					} else {
						values = append(values, "")
					}
				}
			}
		}
	}
	if len(names) == 0 {
		die("no constants of type %s", typ)
	}
	return
}

func emitList(name string, l []string) {
	var q []string
	for _, s := range l {
		q = append(q, cs(s))
	}
	fmt.Printf("Definition %s : list string := [%s].\n", name, strings.Join(q, "; "))
}

func main() {
	root := os.Args[1]
	astF := parse(filepath.Join(root, "grammar/ast.go"))
	evalF := parse(filepath.Join(root, "evaluate.go"))
	coerceF := parse(filepath.Join(root, "coerce.go"))
	optF := parse(filepath.Join(root, "options.go"))

	fmt.Print("From Coq Require Import List ZArith String.\nImport ListNotations.\nOpen Scope string_scope.\n\n")

	for _, t := range []string{"UnaryOperator", "BinaryOperator", "MatchOperator"} {
		n, _ := constBlock(astF, t)
		emitList("go_enum_"+t, n)
	}
	for _, t := range []string{"CollectionBindMode", "CollectionOperator"} {
		n, v := constBlock(astF, t)
		var rows [][2]string
		for i := range n {
			rows = append(rows, [2]string{n[i], v[i]})
		}
		emitTable("go_const_"+t, rows)
	}
	for _, t := range []string{"UnaryOperator", "BinaryOperator", "MatchOperator"} {
		rows, def, _ := switchTable(funcDecl(astF, t, "String"))
		emitTable("go_string_"+t, append(rows, [2]string{"default", def}))
	}
	rows, def, _ := switchTable(funcDecl(astF, "MatchOperator", "NotPresentDisposition"))
	emitTable("go_not_present", append(rows, [2]string{"default", def}))

	rows, def, _ = switchTable(funcDecl(evalF, "", "primitiveEqualityFn"))
	emitTable("go_equality_fn", append(rows, [2]string{"default", def}))
	rows, def, _ = switchTable(funcDecl(evalF, "", "getMatchExprValue"))
	emitTable("go_coerce_of_kind", append(rows, [2]string{"default", def}))

	emitList("go_is_empty_kinds", caseKinds(funcDeclOrNil(evalF, "doMatchIsEmpty")))

	// coerce.go: the strconv call inside each Coerce function and its constant arguments
	fmt.Println("Definition go_coerce_calls : list (string * (string * list Z)) := [")
	var lines []string
	for _, d := range coerceF.Decls {
		fd, ok := d.(*ast.FuncDecl)
		if !ok || !strings.HasPrefix(fd.Name.Name, "Coerce") {
			continue
		}
		var call *ast.CallExpr
		ast.Inspect(fd.Body, func(n ast.Node) bool {
			if c, ok := n.(*ast.CallExpr); ok {
				if se, ok := c.Fun.(*ast.SelectorExpr); ok && exprText(se.X) == "strconv" && call == nil {
					call = c
				}
			}
			return true
		})
		if call == nil {
			die("%s: no strconv call", fd.Name.Name)
		}
		var args []string
		for _, a := range call.Args[1:] {
			bl, ok := a.(*ast.BasicLit)
			if !ok || bl.Kind != token.INT {
				die("%s: non-constant strconv argument", fd.Name.Name)
			}
			args = append(args, bl.Value)
		}
		if id, ok := call.Args[0].(*ast.Ident); !ok || id.Name != fd.Type.Params.List[0].Names[0].Name {
			die("%s: strconv is not applied to the parameter", fd.Name.Name)
		}
		lines = append(lines, fmt.Sprintf("  (%s, (%s, [%s]%%Z))", cs(fd.Name.Name), cs(exprText(call.Fun)), strings.Join(args, "; ")))
	}
	fmt.Println(strings.Join(lines, ";\n"))
	fmt.Println("].")

	// options.go: the composite literal returned by getDefaultOptions
	fd := funcDecl(optF, "", "getDefaultOptions")
	ret := fd.Body.List[len(fd.Body.List)-1].(*ast.ReturnStmt).Results[0].(*ast.CompositeLit)
	var orows [][2]string
	for _, e := range ret.Elts {
		kv := e.(*ast.KeyValueExpr)
		orows = append(orows, [2]string{exprText(kv.Key), exprText(kv.Value)})
	}
	emitTable("go_default_options", orows)

	// evaluate.go: evaluateMatchExpression dispatch: operator -> (matcher, negated?)
	fd = funcDecl(evalF, "", "evaluateMatchExpression")
	var sw *ast.SwitchStmt
	for _, st := range fd.Body.List {
		if s, ok := st.(*ast.SwitchStmt); ok {
			sw = s
		}
	}
	fmt.Println("Definition go_match_dispatch : list (string * (string * bool)) := [")
	lines = nil
	for _, c := range sw.Body.List {
		cc := c.(*ast.CaseClause)
		if cc.List == nil {
			continue
		}
		fn, negated := "", false
		ast.Inspect(cc, func(n ast.Node) bool {
			switch x := n.(type) {
			case *ast.CallExpr:
				if id, ok := x.Fun.(*ast.Ident); ok && strings.HasPrefix(id.Name, "doMatch") {
					fn = id.Name
				}
			case *ast.UnaryExpr:
				if x.Op == token.NOT {
					negated = true
				}
			}
			return true
		})
		for _, e := range cc.List {
			lines = append(lines, fmt.Sprintf("  (%s, (%s, %v))", cs(exprText(e)), cs(fn), negated))
		}
	}
	fmt.Println(strings.Join(lines, ";\n"))
	fmt.Println("].")

	// evaluate.go, filter.go, bexpr.go: every assignment (and ++/--) whose target is not a plain local identifier -
	// a field, a dereference or an element.  The evaluation path must not write to shared structures (C12, C13).
	fmt.Println("(* (file, function, assignment target) of every assignment to a field, dereference or element *)")
	fmt.Println("Definition go_field_writes : list (string * string * string) := [")
	lines = nil
	for _, fn := range []string{"bexpr.go", "evaluate.go", "filter.go"} {
		f := parse(filepath.Join(root, fn))
		for _, d := range f.Decls {
			fdecl, ok := d.(*ast.FuncDecl)
			if !ok || fdecl.Body == nil {
				continue
			}
			name := fdecl.Name.Name
			record := func(e ast.Expr) {
				switch e.(type) {
				case *ast.Ident:
					return
				}
				lines = append(lines, fmt.Sprintf("  (%s, %s, %s)", cs(fn), cs(name), cs(anyExprText(e))))
			}
			ast.Inspect(fdecl.Body, func(n ast.Node) bool {
				switch x := n.(type) {
				case *ast.AssignStmt:
					if x.Tok != token.DEFINE {
						for _, l := range x.Lhs {
							record(l)
						}
					}
				case *ast.IncDecStmt:
					record(x.X)
				}
				return true
			})
		}
	}
	fmt.Println(strings.Join(lines, ";\n"))
	fmt.Println("].")
}
