// Spike: extract the table-shaped parts of go-bexpr into Coq definitions.
package main

import (
	"bytes"
	"fmt"
	"go/ast"
	"go/parser"
	"go/printer"
	"go/token"
	"os"
	"path/filepath"
	"sort"
	"strconv"
	"strings"
)

// die aborts the section being extracted (see section): only the tables of that section become unrecognised
func die(f string, a ...interface{}) { panic(fmt.Sprintf(f, a...)) }

var out = &bytes.Buffer{}

func pln(a ...interface{})          { fmt.Fprintln(out, a...) }
func pf(f string, a ...interface{}) { fmt.Fprintf(out, f, a...) }
func pr(a ...interface{})           { fmt.Fprint(out, a...) }

// section runs one extraction; if the source no longer has the shape the extractor reads, the section's definitions are
// emitted as markers instead (so that only the statements about these tables stop checking) and the reason goes to stderr.
func section(fallback string, f func()) {
	saved := out
	out = &bytes.Buffer{}
	defer func() {
		if r := recover(); r != nil {
			fmt.Fprintf(os.Stderr, "gotables: section not recognised: %v\n", r)
			saved.WriteString(fallback)
		} else {
			saved.Write(out.Bytes())
		}
		out = saved
	}()
	f()
}

func unrec2(names ...string) string {
	var sb strings.Builder
	for _, n := range names {
		fmt.Fprintf(&sb, "Definition %s : list (string * string) := [(\"<unrecognised>\", \"\")].\n", n)
	}
	return sb.String()
}

func cs(s string) string { return `"` + strings.ReplaceAll(s, `"`, `""`) + `"` }

func parse(path string) *ast.File {
	f, err := parser.ParseFile(token.NewFileSet(), path, nil, parser.ParseComments)
	if err != nil {
		die("%v", err)
	}
	for _, d := range f.Decls {
		if gd, ok := d.(*ast.GenDecl); ok && gd.Tok == token.VAR {
			for _, sp := range gd.Specs {
				if vs, ok := sp.(*ast.ValueSpec); ok {
					for i, n := range vs.Names {
						if i < len(vs.Values) {
							if cl, ok := vs.Values[i].(*ast.CompositeLit); ok && len(cl.Elts) > 0 {
								if _, keyed := cl.Elts[0].(*ast.KeyValueExpr); keyed {
									keyedTables[n.Name] = cl
								}
							}
						}
					}
				}
			}
		}
	}
	return f
}

func funcDecl(f *ast.File, recv, name string) *ast.FuncDecl {
	for _, d := range f.Decls {
		fd, ok := d.(*ast.FuncDecl)
		if !ok || fd.Name.Name != name {
			continue
		}
		r := ""
		if fd.Recv != nil && len(fd.Recv.List) == 1 {
			switch t := fd.Recv.List[0].Type.(type) {
			case *ast.Ident:
				r = t.Name
			case *ast.StarExpr:
				r = t.X.(*ast.Ident).Name
			}
		}
		if r == recv {
			return fd
		}
	}
	die("function %s.%s not found", recv, name)
	return nil
}

func funcDeclOrNil(f *ast.File, name string) *ast.FuncDecl {
	for _, d := range f.Decls {
		if fd, ok := d.(*ast.FuncDecl); ok && fd.Recv == nil && fd.Name.Name == name {
			return fd
		}
	}
	return nil
}

// anyExprText renders any expression as source text (used where the shape of the expression is not prescribed).
func anyExprText(e ast.Expr) string {
	var sb strings.Builder
	if err := printer.Fprint(&sb, token.NewFileSet(), e); err != nil {
		return fmt.Sprintf("%T", e)
	}
	return strings.Join(strings.Fields(sb.String()), " ")
}

func exprText(e ast.Expr) string {
	switch x := e.(type) {
	case *ast.Ident:
		return x.Name
	case *ast.SelectorExpr:
		return exprText(x.X) + "." + x.Sel.Name
	case *ast.BasicLit:
		if x.Kind == token.STRING {
			s, _ := strconv.Unquote(x.Value)
			return s
		}
		return x.Value
	}
	die("unsupported expression %T", e)
	return ""
}

// the single top-level `switch tag { case A, B: return X ... default: return Y }` of a function
var fullReturnText bool

// package-level keyed composite literals of the files read so far, by variable name (filled by parse)
var keyedTables = map[string]*ast.CompositeLit{}

func lookupTable(fd *ast.FuncDecl) (rows [][2]string, def string, ok bool) {
	if fd.Type.Params == nil || len(fd.Type.Params.List) == 0 || len(fd.Type.Params.List[0].Names) == 0 {
		return nil, "", false
	}
	var tbl *ast.CompositeLit
	ast.Inspect(fd.Body, func(n ast.Node) bool {
		if ix, isIx := n.(*ast.IndexExpr); isIx && tbl == nil {
			if id, isId := ix.X.(*ast.Ident); isId {
				if t, found := keyedTables[id.Name]; found {
					tbl = t
				}
			}
		}
		return true
	})
	if tbl == nil {
		return nil, "", false
	}
	for _, e := range tbl.Elts {
		kv, isKV := e.(*ast.KeyValueExpr)
		if !isKV {
			return nil, "", false
		}
		v := anyExprText(kv.Value)
		if call, isCall := kv.Value.(*ast.CallExpr); isCall && !fullReturnText {
			v = anyExprText(call.Fun)
		}
		rows = append(rows, [2]string{anyExprText(kv.Key), v})
	}
	def = "nil"
	if fd.Name.Name == "getMatchExprValue" {
		def = "<the literal as written>"
	}
	return rows, def, len(rows) > 0
}

func switchTable(fd *ast.FuncDecl) (rows [][2]string, def string, hasDef bool) {
	var sw *ast.SwitchStmt
	for _, st := range fd.Body.List {
		if s, ok := st.(*ast.SwitchStmt); ok {
			if sw != nil {
				die("%s: more than one switch", fd.Name.Name)
			}
			sw = s
		}
	}
	if sw == nil {
		// no switch: a lookup in a package-level table written as a keyed composite literal (`var t = [...]F{Key: value, ...}` or a
		// map), indexed by the function's parameter. Keys without an entry are the default (the zero value: nil for functions).
		if rows, def, ok := lookupTable(fd); ok {
			return rows, def, true
		}
		die("%s: no switch", fd.Name.Name)
	}
	for _, c := range sw.Body.List {
		cc := c.(*ast.CaseClause)
		var ret string
		found := false
		for _, st := range cc.Body {
			if r, ok := st.(*ast.ReturnStmt); ok && !found {
				if len(r.Results) < 1 {
					die("%s: empty return", fd.Name.Name)
				}
				switch v := r.Results[0].(type) {
				case *ast.CallExpr:
					ret = exprText(v.Fun) // e.g. CoerceBool(expression.Value.Raw)
					if fullReturnText {
						ret = anyExprText(v)
					}
				default:
					if fd.Name.Name == "getMatchExprValue" {
						ret = "<the literal as written>" // no coercion function: how the raw literal is spelled is not prescribed
					} else {
						ret = exprText(v)
					}
				}
				found = true
			}
		}
		if !found {
			die("%s: case without a return", fd.Name.Name)
		}
		if cc.List == nil {
			def, hasDef = ret, true
			continue
		}
		for _, e := range cc.List {
			rows = append(rows, [2]string{exprText(e), ret})
		}
	}
	return
}

// caseKinds: the case labels of the non-default clauses of the function's only switch (never fatal: a function whose
// shape is not recognised yields a marker, so that only the statements about this table stop checking)
func caseKinds(fd *ast.FuncDecl) (out []string) {
	defer func() {
		if recover() != nil {
			out = []string{"<unrecognised>"}
		}
	}()
	if fd == nil || fd.Body == nil {
		return []string{"<unrecognised>"}
	}
	var sw *ast.SwitchStmt
	for _, st := range fd.Body.List {
		if s, ok := st.(*ast.SwitchStmt); ok {
			if sw != nil {
				return []string{"<unrecognised>"}
			}
			sw = s
		}
	}
	if sw == nil {
		return []string{"<unrecognised>"}
	}
	for _, c := range sw.Body.List {
		cc := c.(*ast.CaseClause)
		for _, e := range cc.List {
			out = append(out, anyExprText(e))
		}
	}
	return
}

func emitTable(name string, rows [][2]string) {
	pf("Definition %s : list (string * string) := [\n", name)
	for i, r := range rows {
		sep := ";"
		if i == len(rows)-1 {
			sep = ""
		}
		pf("  (%s, %s)%s\n", cs(r[0]), cs(r[1]), sep)
	}
	pln("].")
}

// const blocks: names in declaration order for a given type (iota enums) or name=string-value pairs
func constBlock(f *ast.File, typ string) (names []string, values []string) {
	for _, d := range f.Decls {
		gd, ok := d.(*ast.GenDecl)
		if !ok || gd.Tok != token.CONST {
			continue
		}
		cur := ""
		for _, sp := range gd.Specs {
			vs := sp.(*ast.ValueSpec)
			if vs.Type != nil {
				cur = exprText(vs.Type)
			} else if len(vs.Values) > 0 {
				cur = "" // untyped with explicit value
			}
			if cur == typ {
				for i, n := range vs.Names {
					names = append(names, n.Name)
					if len(vs.Values) > i {
						values = append(values, exprText(vs.Values[i]))
					} else {
						values = append(values, "")
					}
				}
			}
		}
	}
	if len(names) == 0 {
		die("no constants of type %s", typ)
	}
	return
}

func emitList(name string, l []string) {
	var q []string
	for _, s := range l {
		q = append(q, cs(s))
	}
	pf("Definition %s : list string := [%s].\n", name, strings.Join(q, "; "))
}

func main() {
	root := os.Args[1]
	astF := parse(filepath.Join(root, "grammar/ast.go"))
	evalF := parse(filepath.Join(root, "evaluate.go"))
	coerceF := parse(filepath.Join(root, "coerce.go"))
	optF := parse(filepath.Join(root, "options.go"))

	pr("From Coq Require Import List ZArith String.\nImport ListNotations.\nOpen Scope string_scope.\n\n")

	section("Definition go_enum_UnaryOperator : list string := [\"<unrecognised>\"].\nDefinition go_enum_BinaryOperator : list string := [\"<unrecognised>\"].\nDefinition go_enum_MatchOperator : list string := [\"<unrecognised>\"].\n", func() {
		for _, t := range []string{"UnaryOperator", "BinaryOperator", "MatchOperator"} {
			n, _ := constBlock(astF, t)
			emitList("go_enum_"+t, n)
		}

	})
	section(unrec2("go_const_CollectionBindMode", "go_const_CollectionOperator"), func() {
		for _, t := range []string{"CollectionBindMode", "CollectionOperator"} {
			n, v := constBlock(astF, t)
			var rows [][2]string
			for i := range n {
				rows = append(rows, [2]string{n[i], v[i]})
			}
			emitTable("go_const_"+t, rows)
		}

	})
	section(unrec2("go_string_UnaryOperator", "go_string_BinaryOperator", "go_string_MatchOperator"), func() {
		for _, t := range []string{"UnaryOperator", "BinaryOperator", "MatchOperator"} {
			rows, def, _ := switchTable(funcDecl(astF, t, "String"))
			emitTable("go_string_"+t, append(rows, [2]string{"default", def}))
		}

	})
	section(unrec2("go_not_present"), func() {
		rows, def, _ := switchTable(funcDecl(astF, "MatchOperator", "NotPresentDisposition"))
		emitTable("go_not_present", append(rows, [2]string{"default", def}))
	})
	section(unrec2("go_equality_fn"), func() {
		// the function from a reflect.Kind to a comparison function, whatever it is called and whichever file it is in
		var cand []*ast.FuncDecl
		files, _ := filepath.Glob(filepath.Join(root, "*.go"))
		sort.Strings(files)
		funcTypeNames := map[string]bool{}
		for _, fn := range files {
			if strings.HasSuffix(fn, "_test.go") || strings.HasSuffix(fn, "_hooks.go") {
				continue
			}
			for _, d := range parse(fn).Decls {
				if gd, ok := d.(*ast.GenDecl); ok && gd.Tok == token.TYPE {
					for _, sp := range gd.Specs {
						if ts, ok := sp.(*ast.TypeSpec); ok {
							if _, ok := ts.Type.(*ast.FuncType); ok {
								funcTypeNames[ts.Name.Name] = true
							}
						}
					}
				}
			}
		}
		for _, fn := range files {
			if strings.HasSuffix(fn, "_test.go") || strings.HasSuffix(fn, "_hooks.go") {
				continue
			}
			for _, d := range parse(fn).Decls {
				fd, ok := d.(*ast.FuncDecl)
				if !ok || fd.Recv != nil || fd.Type.Params == nil || fd.Type.Results == nil || len(fd.Type.Params.List) != 1 || len(fd.Type.Results.List) != 1 {
					continue
				}
				rt := fd.Type.Results.List[0].Type
				_, isFn := rt.(*ast.FuncType)
				if id, ok := rt.(*ast.Ident); ok && funcTypeNames[id.Name] {
					isFn = true // a named function type declared in the package
				}
				if isFn && anyExprText(fd.Type.Params.List[0].Type) == "reflect.Kind" {
					cand = append(cand, fd)
				}
			}
		}
		if len(cand) != 1 {
			die("%d functions from reflect.Kind to a function value", len(cand))
		}
		fullReturnText = true // which comparison is returned is the whole expression (a constructor applied to an accessor as well as a function name)
		rows, def, _ := switchTable(cand[0])
		fullReturnText = false
		emitTable("go_equality_fn", append(rows, [2]string{"default", def}))
	})
	section(unrec2("go_coerce_of_kind"), func() {
		rows, def, _ := switchTable(funcDecl(evalF, "", "getMatchExprValue"))
		emitTable("go_coerce_of_kind", append(rows, [2]string{"default", def}))
	})

	emitList("go_is_empty_kinds", caseKinds(funcDeclOrNil(evalF, "doMatchIsEmpty")))

	section("Definition go_coerce_calls : list (string * (string * list Z)) := [(\"<unrecognised>\", (\"\", []%Z))].\n", func() {
		// coerce.go: the strconv call inside each Coerce function and its constant arguments
		pln("Definition go_coerce_calls : list (string * (string * list Z)) := [")
		var lines []string
		// integer constants declared in coerce.go (const base = 0; const ( bits64 = 64 )) stand for their values
		intConsts := map[string]string{}
		for _, d := range coerceF.Decls {
			gd, ok := d.(*ast.GenDecl)
			if !ok || gd.Tok != token.CONST {
				continue
			}
			for _, sp := range gd.Specs {
				vs, ok := sp.(*ast.ValueSpec)
				if !ok || len(vs.Names) != len(vs.Values) {
					continue
				}
				for i, n := range vs.Names {
					if bl, ok := vs.Values[i].(*ast.BasicLit); ok && bl.Kind == token.INT {
						intConsts[n.Name] = bl.Value
					}
				}
			}
		}
		for _, d := range coerceF.Decls {
			fd, ok := d.(*ast.FuncDecl)
			if !ok || !strings.HasPrefix(fd.Name.Name, "Coerce") {
				continue
			}
			var call *ast.CallExpr
			ast.Inspect(fd.Body, func(n ast.Node) bool {
				if c, ok := n.(*ast.CallExpr); ok {
					if se, ok := c.Fun.(*ast.SelectorExpr); ok && exprText(se.X) == "strconv" && call == nil {
						call = c
					}
				}
				return true
			})
			if call == nil {
				die("%s: no strconv call", fd.Name.Name)
			}
			var args []string
			for _, a := range call.Args[1:] {
				if id, isId := a.(*ast.Ident); isId {
					if v, known := intConsts[id.Name]; known {
						args = append(args, v)
						continue
					}
				}
				bl, ok := a.(*ast.BasicLit)
				if !ok || bl.Kind != token.INT {
					die("%s: non-constant strconv argument", fd.Name.Name)
				}
				args = append(args, bl.Value)
			}
			if id, ok := call.Args[0].(*ast.Ident); !ok || id.Name != fd.Type.Params.List[0].Names[0].Name {
				die("%s: strconv is not applied to the parameter", fd.Name.Name)
			}
			lines = append(lines, fmt.Sprintf("  (%s, (%s, [%s]%%Z))", cs(fd.Name.Name), cs(exprText(call.Fun)), strings.Join(args, "; ")))
		}
		pln(strings.Join(lines, ";\n"))
		pln("].")

	})
	section(unrec2("go_default_options"), func() {
		// options.go: the composite literal of type `options` the defaults are built from (wherever it stands: in
		// getDefaultOptions or inlined into getOpts); identifiers that name string/int constants of the file are resolved
		consts := map[string]string{}
		for _, d := range optF.Decls {
			if gd, ok := d.(*ast.GenDecl); ok && gd.Tok == token.CONST {
				for _, sp := range gd.Specs {
					vs := sp.(*ast.ValueSpec)
					for i, n := range vs.Names {
						if i < len(vs.Values) {
							if bl, ok := vs.Values[i].(*ast.BasicLit); ok {
								consts[n.Name] = exprText(bl)
							}
						}
					}
				}
			}
		}
		var lit *ast.CompositeLit
		ast.Inspect(optF, func(n ast.Node) bool {
			if cl, ok := n.(*ast.CompositeLit); ok && lit == nil {
				if id, ok := cl.Type.(*ast.Ident); ok && id.Name == "options" {
					lit = cl
				}
			}
			return true
		})
		if lit == nil {
			die("options.go: no composite literal of type options")
		}
		var orows [][2]string
		for _, e := range lit.Elts {
			kv := e.(*ast.KeyValueExpr)
			v := exprText(kv.Value)
			if id, ok := kv.Value.(*ast.Ident); ok {
				if c, ok := consts[id.Name]; ok {
					v = c
				}
			}
			orows = append(orows, [2]string{exprText(kv.Key), v})
		}
		sort.Slice(orows, func(i, j int) bool { return orows[i][0] < orows[j][0] })
		emitTable("go_default_options", orows)

	})
	section("Definition go_match_dispatch : list (string * (string * bool)) := [(\"<unrecognised>\", (\"\", false))].\n", func() {
		// evaluate.go: evaluateMatchExpression dispatch: operator -> (matcher, negated?)
		fd := funcDecl(evalF, "", "evaluateMatchExpression")
		var sw *ast.SwitchStmt
		for _, st := range fd.Body.List {
			if s, ok := st.(*ast.SwitchStmt); ok {
				sw = s
			}
		}
		pln("Definition go_match_dispatch : list (string * (string * bool)) := [")
		var lines []string
		for _, c := range sw.Body.List {
			cc := c.(*ast.CaseClause)
			if cc.List == nil {
				continue
			}
			fn, negated := "", false
			ast.Inspect(cc, func(n ast.Node) bool {
				switch x := n.(type) {
				case *ast.CallExpr:
					if id, ok := x.Fun.(*ast.Ident); ok && strings.HasPrefix(id.Name, "doMatch") {
						fn = id.Name
					}
				case *ast.UnaryExpr:
					if x.Op == token.NOT {
						negated = true
					}
				}
				return true
			})
			for _, e := range cc.List {
				lines = append(lines, fmt.Sprintf("  (%s, (%s, %v))", cs(exprText(e)), cs(fn), negated))
			}
		}
		pln(strings.Join(lines, ";\n"))
		pln("].")

	})
	section("Definition go_field_writes : list (string * string * string * string) := [(\"<unrecognised>\", \"Evaluate\", \"\", \"shared\")].\n", func() {
		// evaluate.go, filter.go, bexpr.go, options.go, coerce.go: every assignment (and ++/--) whose target is not a plain identifier -
		// a field, a dereference or an element - with a classification of what it writes to:
		//   "own-copy": a chain of field selections (no index, no dereference) on a by-value struct parameter, or on a local that
		//               was initialised from a composite literal T{...} or from such a parameter: the callee's own copy;
		//   "shared":   everything else (pointer parameters and receivers, package variables, locals of unknown origin, elements).
		// The evaluation path must not write to shared structures (C12, C13).
		pln("(* (file, function, assignment target, class) of every assignment to a field, dereference or element *)")
		pln("Definition go_field_writes : list (string * string * string * string) := [")
		var lines []string
		refType := func(t ast.Expr) bool { // a type whose values share what they point to
			switch x := t.(type) {
			case *ast.StarExpr, *ast.MapType, *ast.ArrayType, *ast.ChanType, *ast.FuncType, *ast.InterfaceType, *ast.Ellipsis:
				return true
			case *ast.Ident:
				return x.Name == "error" || x.Name == "any"
			case *ast.SelectorExpr:
				return anyExprText(x) == "reflect.Value" || anyExprText(x) == "reflect.Type"
			}
			return false
		}
		// call-local types: unexported struct types of these files that no struct field and no package-level variable mentions -
		// values of such a type live in locals, parameters and results only (an iterator, a visitor, the per-call `options`), so a
		// write to one of its fields through a pointer is a write to the state of one call, not to anything shared between calls
		evalFiles := []string{"bexpr.go", "evaluate.go", "filter.go", "options.go", "coerce.go"}
		structTypes := map[string]bool{}
		mentioned := map[string]bool{}
		funcResult := map[string]string{} // package function or method name -> name of its first result type (through *)
		for _, fn := range evalFiles {
			f := parse(filepath.Join(root, fn))
			for _, d := range f.Decls {
				switch x := d.(type) {
				case *ast.GenDecl:
					for _, sp := range x.Specs {
						switch y := sp.(type) {
						case *ast.TypeSpec:
							if st, ok := y.Type.(*ast.StructType); ok {
								if !ast.IsExported(y.Name.Name) {
									structTypes[y.Name.Name] = true
								}
								ast.Inspect(st, func(n ast.Node) bool {
									if id, ok := n.(*ast.Ident); ok {
										mentioned[id.Name] = true
									}
									return true
								})
							}
						case *ast.ValueSpec:
							if x.Tok == token.VAR {
								ast.Inspect(y, func(n ast.Node) bool {
									if id, ok := n.(*ast.Ident); ok {
										mentioned[id.Name] = true
									}
									return true
								})
							}
						}
					}
				case *ast.FuncDecl:
					if x.Type.Results != nil && len(x.Type.Results.List) > 0 {
						t := x.Type.Results.List[0].Type
						if st, ok := t.(*ast.StarExpr); ok {
							t = st.X
						}
						if id, ok := t.(*ast.Ident); ok {
							funcResult[x.Name.Name] = id.Name
						}
					}
				}
			}
		}
		localType := func(t ast.Expr) bool {
			if st, ok := t.(*ast.StarExpr); ok {
				t = st.X
			}
			id, ok := t.(*ast.Ident)
			return ok && structTypes[id.Name] && !mentioned[id.Name]
		}
		for _, fn := range evalFiles {
			f := parse(filepath.Join(root, fn))
			for _, d := range f.Decls {
				fdecl, ok := d.(*ast.FuncDecl)
				if !ok || fdecl.Body == nil {
					continue
				}
				name := fdecl.Name.Name
				own := map[string]bool{} // identifiers that denote the function's own copy of a struct, or a value of a call-local type
				for _, fl := range []*ast.FieldList{fdecl.Recv, fdecl.Type.Params} {
					if fl == nil {
						continue
					}
					for _, p := range fl.List {
						if !refType(p.Type) || localType(p.Type) {
							for _, n := range p.Names {
								own[n.Name] = true
							}
						}
					}
				}
				// locals: x := T{...}  /  x := y (y own)  /  var x T; parameters of function literals like those of the function
				ast.Inspect(fdecl.Body, func(n ast.Node) bool {
					switch x := n.(type) {
					case *ast.FuncLit:
						if x.Type.Params != nil {
							for _, p := range x.Type.Params.List {
								if !refType(p.Type) || localType(p.Type) {
									for _, n := range p.Names {
										own[n.Name] = true
									}
								}
							}
						}
					case *ast.AssignStmt:
						if x.Tok == token.DEFINE && len(x.Lhs) == len(x.Rhs) {
							for i, l := range x.Lhs {
								id, ok := l.(*ast.Ident)
								if !ok {
									continue
								}
								switch r := x.Rhs[i].(type) {
								case *ast.CompositeLit:
									if !refType(r.Type) {
										own[id.Name] = true
									}
								case *ast.Ident:
									if own[r.Name] {
										own[id.Name] = true
									}
								case *ast.UnaryExpr: // &T{...} of a call-local type
									if cl, ok := r.X.(*ast.CompositeLit); ok && r.Op == token.AND && localType(cl.Type) {
										own[id.Name] = true
									}
								case *ast.CallExpr: // new(T) or a constructor of a call-local type
									ft := anyExprText(r.Fun)
									if ft == "new" && len(r.Args) == 1 && localType(r.Args[0]) {
										own[id.Name] = true
									} else if t, ok := funcResult[ft]; ok && structTypes[t] && !mentioned[t] {
										own[id.Name] = true
									}
								}
							}
						}
					case *ast.DeclStmt:
						if gd, ok := x.Decl.(*ast.GenDecl); ok && gd.Tok == token.VAR {
							for _, sp := range gd.Specs {
								if vs, ok := sp.(*ast.ValueSpec); ok && vs.Type != nil && !refType(vs.Type) && len(vs.Values) == 0 {
									for _, n := range vs.Names {
										own[n.Name] = true
									}
								}
							}
						}
					}
					return true
				})
				var classify func(e ast.Expr) string
				classify = func(e ast.Expr) string {
					switch x := e.(type) {
					case *ast.Ident:
						if own[x.Name] {
							return "own-copy"
						}
						return "shared"
					case *ast.SelectorExpr:
						return classify(x.X)
					case *ast.ParenExpr:
						return classify(x.X)
					}
					return "shared" // index, dereference, call results
				}
				record := func(e ast.Expr) {
					if _, ok := e.(*ast.Ident); ok {
						return
					}
					lines = append(lines, fmt.Sprintf("  (%s, %s, %s, %s)", cs(fn), cs(name), cs(anyExprText(e)), cs(classify(e))))
				}
				ast.Inspect(fdecl.Body, func(n ast.Node) bool {
					switch x := n.(type) {
					case *ast.AssignStmt:
						if x.Tok != token.DEFINE {
							for _, l := range x.Lhs {
								record(l)
							}
						}
					case *ast.IncDecStmt:
						record(x.X)
					}
					return true
				})
			}
		}
		pln(strings.Join(lines, ";\n"))
		pln("].")

	})
	section("Definition go_eval_reachable : list string := [\"<unrecognised>\"].\n", func() {
		// the functions reachable from Evaluator.Evaluate and Filter.Execute through calls by name (functions and methods of the
		// package, matched by name): the evaluation path
		{
			calls := map[string]map[string]bool{}
			declared := map[string]bool{}
			for _, fn := range []string{"bexpr.go", "evaluate.go", "filter.go", "options.go", "coerce.go"} {
				f := parse(filepath.Join(root, fn))
				for _, d := range f.Decls {
					fdecl, ok := d.(*ast.FuncDecl)
					if !ok || fdecl.Body == nil {
						continue
					}
					name := fdecl.Name.Name
					declared[name] = true
					if calls[name] == nil {
						calls[name] = map[string]bool{}
					}
					ast.Inspect(fdecl.Body, func(n ast.Node) bool {
						// any mention of a package function counts (a function value may be called later)
						switch x := n.(type) {
						case *ast.Ident:
							calls[name][x.Name] = true
						case *ast.SelectorExpr:
							calls[name][x.Sel.Name] = true
						}
						return true
					})
				}
			}
			reach := map[string]bool{"Evaluate": true, "Execute": true}
			for changed := true; changed; {
				changed = false
				for f := range reach {
					for c := range calls[f] {
						if declared[c] && !reach[c] {
							reach[c] = true
							changed = true
						}
					}
				}
			}
			var names []string
			for f := range reach {
				names = append(names, f)
			}
			sort.Strings(names)
			emitList("go_eval_reachable", names)
		}

	})
	section("Definition go_package_vars : list (string * string * string) := [(\"<unrecognised>\", \"\", \"mutable\")].\n", func() {
		// package-level variables of the same files: (file, name, class). "mutable" = anything that can hold state written after
		// initialisation (maps, slices, pointers, channels, sync and atomic types, composite values); "fixed" = basic literals and the
		// results of reflect.TypeOf / errors.New / regexp.MustCompile / fmt.Errorf, which the code only reads.
		pln("Definition go_package_vars : list (string * string * string) := [")
		var lines []string
		fixedCalls := map[string]bool{"reflect.TypeOf": true, "errors.New": true, "regexp.MustCompile": true, "fmt.Errorf": true}
		files := []string{"bexpr.go", "evaluate.go", "filter.go", "options.go", "coerce.go", "grammar/ast.go"}
		// names that some function body writes through: the root identifier of an assignment target, of ++/--, of an address-of,
		// of a range clause that assigns, or of the target of a call that can write (same list as go_mutating_calls)
		written := map[string]bool{}
		var rootOf func(e ast.Expr) string
		rootOf = func(e ast.Expr) string {
			switch x := e.(type) {
			case *ast.Ident:
				return x.Name
			case *ast.SelectorExpr:
				return rootOf(x.X)
			case *ast.IndexExpr:
				return rootOf(x.X)
			case *ast.SliceExpr:
				return rootOf(x.X)
			case *ast.StarExpr:
				return rootOf(x.X)
			case *ast.ParenExpr:
				return rootOf(x.X)
			}
			return ""
		}
		mutName := func(n string) bool {
			if strings.HasPrefix(n, "Set") || strings.HasPrefix(n, "Write") {
				return true
			}
			switch n {
			case "Store", "Swap", "CompareAndSwap", "Add", "Delete", "LoadOrStore", "LoadAndDelete", "Put", "Get", "Lock", "Unlock", "RLock", "RUnlock", "Do", "Send", "Clear", "Grow", "Reset", "Truncate", "Range":
				return true
			}
			return false
		}
		for _, fn := range files {
			f := parse(filepath.Join(root, fn))
			ast.Inspect(f, func(n ast.Node) bool {
				switch x := n.(type) {
				case *ast.AssignStmt:
					if x.Tok != token.DEFINE {
						for _, l := range x.Lhs {
							written[rootOf(l)] = true
						}
					}
				case *ast.IncDecStmt:
					written[rootOf(x.X)] = true
				case *ast.UnaryExpr:
					if x.Op == token.AND {
						written[rootOf(x.X)] = true
					}
				case *ast.RangeStmt:
					if x.Tok == token.ASSIGN {
						if x.Key != nil {
							written[rootOf(x.Key)] = true
						}
						if x.Value != nil {
							written[rootOf(x.Value)] = true
						}
					}
				case *ast.CallExpr:
					ft := anyExprText(x.Fun)
					if (ft == "append" || ft == "copy" || ft == "delete" || ft == "reflect.Append" || ft == "reflect.AppendSlice" || ft == "reflect.Copy" || strings.HasPrefix(ft, "sort.")) && len(x.Args) > 0 {
						written[rootOf(x.Args[0])] = true
					} else if sel, ok := x.Fun.(*ast.SelectorExpr); ok && mutName(sel.Sel.Name) {
						written[rootOf(sel.X)] = true
					}
				}
				return true
			})
		}
		for _, fn := range files {
			f := parse(filepath.Join(root, fn))
			for _, d := range f.Decls {
				gd, ok := d.(*ast.GenDecl)
				if !ok || gd.Tok != token.VAR {
					continue
				}
				for _, sp := range gd.Specs {
					vs := sp.(*ast.ValueSpec)
					for i, n := range vs.Names {
						class := "mutable"
						if !written[n.Name] {
							class = "unwritten" // a table: no function assigns to it, increments it, takes its address or calls a writing method on it
						}
						if i < len(vs.Values) {
							switch v := vs.Values[i].(type) {
							case *ast.BasicLit:
								class = "fixed"
							case *ast.CallExpr:
								if fixedCalls[anyExprText(v.Fun)] {
									class = "fixed"
								}
							}
						}
						if vs.Type != nil {
							tt := anyExprText(vs.Type)
							if strings.HasPrefix(tt, "sync.") || strings.HasPrefix(tt, "atomic.") || strings.HasPrefix(tt, "chan") {
								class = "mutable"
							}
						}
						if written[n.Name] && class == "fixed" {
							class = "mutable"
						}
						lines = append(lines, fmt.Sprintf("  (%s, %s, %s)", cs(fn), cs(n.Name), cs(class)))
					}
				}
			}
		}
		pln(strings.Join(lines, ";\n"))
		pln("].")

	})
	section("Definition go_mutating_calls : list (string * string * string * string * string) := [(\"<unrecognised>\", \"Evaluate\", \"\", \"\", \"shared\")].\n", func() {
		// every call that can write through its target - the builtins append/copy/delete, reflect.Append/AppendSlice/Copy, sort.*,
		// and methods whose name says so (Set*, Store, Swap, CompareAndSwap, Add, Delete, LoadOrStore, LoadAndDelete, Put, Lock, Unlock,
		// RLock, RUnlock, Do, Send, Clear, Grow, Reset, Truncate, Write*) - as (file, function, callee, target, class):
		//   "fresh":  the target is a container the function made itself: make(...), a composite literal, T(nil), a nil `var x []T`,
		//             reflect.MakeSlice/MakeMap/MakeMapWithSize/New, x.MapKeys(), append / reflect.Append of a fresh container,
		//             or the function's own by-value struct (var b strings.Builder);
		//   "shared": anything else (parameters, fields, results of other calls).
		pln("(* (file, function, callee, target, class) of every call that can write through its target *)")
		pln("Definition go_mutating_calls : list (string * string * string * string * string) := [")
		var lines []string
		mutMethod := func(n string) bool {
			if strings.HasPrefix(n, "Set") || strings.HasPrefix(n, "Write") {
				return true
			}
			switch n {
			case "Store", "Swap", "CompareAndSwap", "Add", "Delete", "LoadOrStore", "LoadAndDelete", "Put", "Lock", "Unlock", "RLock", "RUnlock", "Do", "Send", "Clear", "Grow", "Reset", "Truncate":
				return true
			}
			return false
		}
		makers := map[string]bool{"reflect.MakeSlice": true, "reflect.MakeMap": true, "reflect.MakeMapWithSize": true, "reflect.New": true}
		containerType := func(t ast.Expr) bool {
			switch t.(type) {
			case *ast.ArrayType, *ast.MapType:
				return true
			}
			return false
		}
		// a parameter of an unexported function is as fresh as what every call site in the package passes for it
		type pending struct {
			line int
			fn   string
			idx  int
		}
		var pend []pending
		ctxFresh := map[string]func(ast.Expr) bool{}
		type fnDecl struct {
			name string
			decl *ast.FuncDecl
		}
		var allFuncs []fnDecl
		for _, fn := range []string{"bexpr.go", "evaluate.go", "filter.go", "options.go", "coerce.go"} {
			f := parse(filepath.Join(root, fn))
			for _, d := range f.Decls {
				fdecl, ok := d.(*ast.FuncDecl)
				if !ok || fdecl.Body == nil {
					continue
				}
				name := fdecl.Name.Name
				allFuncs = append(allFuncs, fnDecl{name, fdecl})
				paramIdx := map[string]int{}
				if !ast.IsExported(name) && fdecl.Type.Params != nil {
					k := 0
					for _, p := range fdecl.Type.Params.List {
						for _, n := range p.Names {
							paramIdx[n.Name] = k
							k++
						}
					}
				}
				fresh := map[string]bool{}
				spoiled := map[string]bool{}
				var freshExpr func(e ast.Expr) bool
				freshExpr = func(e ast.Expr) bool {
					switch x := e.(type) {
					case *ast.Ident:
						return fresh[x.Name] && !spoiled[x.Name]
					case *ast.ParenExpr:
						return freshExpr(x.X)
					case *ast.CompositeLit:
						return true
					case *ast.CallExpr:
						ft := anyExprText(x.Fun)
						if ft == "make" || makers[ft] {
							return true
						}
						if (ft == "append" || ft == "reflect.Append" || ft == "reflect.AppendSlice") && len(x.Args) > 0 {
							return freshExpr(x.Args[0])
						}
						if sel, ok := x.Fun.(*ast.SelectorExpr); ok && sel.Sel.Name == "MapKeys" && len(x.Args) == 0 {
							return true
						}
						switch ft { // standard-library functions documented to return a new slice or map
						case "slices.Clone", "slices.Concat", "slices.Collect", "slices.Sorted", "slices.SortedFunc", "slices.AppendSeq", "maps.Clone", "maps.Collect",
							"strings.Split", "strings.Fields", "strings.SplitN", "bytes.Clone":
							if ft == "slices.AppendSeq" {
								return len(x.Args) > 0 && freshExpr(x.Args[0])
							}
							return true
						}
						// a conversion of nil: []T(nil)
						if len(x.Args) == 1 && containerType(x.Fun) {
							if id, ok := x.Args[0].(*ast.Ident); ok && id.Name == "nil" {
								return true
							}
						}
						if pe, ok := x.Fun.(*ast.ParenExpr); ok && len(x.Args) == 1 && containerType(pe.X) {
							if id, ok := x.Args[0].(*ast.Ident); ok && id.Name == "nil" {
								return true
							}
						}
					}
					return false
				}
				// two passes so that the order of statements does not matter for := chains; an assignment from anything not fresh spoils
				for pass := 0; pass < 3; pass++ {
					ast.Inspect(fdecl.Body, func(n ast.Node) bool {
						switch x := n.(type) {
						case *ast.AssignStmt:
							if len(x.Lhs) == len(x.Rhs) {
								for i, l := range x.Lhs {
									id, ok := l.(*ast.Ident)
									if !ok {
										continue
									}
									if freshExpr(x.Rhs[i]) {
										fresh[id.Name] = true
									} else if pass == 2 {
										spoiled[id.Name] = true
									}
								}
							} else {
								for _, l := range x.Lhs {
									if id, ok := l.(*ast.Ident); ok && pass == 2 {
										spoiled[id.Name] = true
									}
								}
							}
						case *ast.DeclStmt:
							if gd, ok := x.Decl.(*ast.GenDecl); ok && gd.Tok == token.VAR {
								for _, sp := range gd.Specs {
									if vs, ok := sp.(*ast.ValueSpec); ok && len(vs.Values) == 0 && vs.Type != nil {
										switch vs.Type.(type) {
										case *ast.StarExpr, *ast.ChanType, *ast.FuncType, *ast.InterfaceType:
										default: // a nil slice or map, or a zero struct of the function's own
											for _, n := range vs.Names {
												fresh[n.Name] = true
											}
										}
									}
								}
							}
						}
						return true
					})
				}
				// parameters and range variables are never fresh
				if fdecl.Type.Params != nil {
					for _, p := range fdecl.Type.Params.List {
						for _, n := range p.Names {
							spoiled[n.Name] = true
						}
					}
				}
				if fdecl.Recv != nil {
					for _, p := range fdecl.Recv.List {
						for _, n := range p.Names {
							spoiled[n.Name] = true
						}
					}
				}
				class := func(e ast.Expr) string {
					if freshExpr(e) {
						return "fresh"
					}
					return "shared"
				}
				ast.Inspect(fdecl.Body, func(n ast.Node) bool {
					call, ok := n.(*ast.CallExpr)
					if !ok {
						return true
					}
					ft := anyExprText(call.Fun)
					var target ast.Expr
					switch {
					case (ft == "append" || ft == "copy" || ft == "delete" || ft == "clear" || ft == "reflect.Append" || ft == "reflect.AppendSlice" || ft == "reflect.Copy" || strings.HasPrefix(ft, "sort.") ||
						strings.HasPrefix(ft, "slices.Sort") || ft == "slices.Reverse" || ft == "slices.Insert" || ft == "slices.Delete" || ft == "slices.Compact" || ft == "slices.Grow" || ft == "slices.AppendSeq" || ft == "maps.Copy" || ft == "maps.DeleteFunc" || ft == "maps.Insert") && len(call.Args) > 0:
						target = call.Args[0]
					default:
						if sel, ok := call.Fun.(*ast.SelectorExpr); ok && mutMethod(sel.Sel.Name) {
							if id, ok := sel.X.(*ast.Ident); !ok || (id.Name != "reflect" && id.Name != "sort" && id.Name != "strings" && id.Name != "fmt" && id.Name != "strconv") {
								target = sel.X
							}
						}
					}
					if target != nil {
						cl := class(target)
						if id, isId := target.(*ast.Ident); isId && cl == "shared" {
							if k, isParam := paramIdx[id.Name]; isParam {
								pend = append(pend, pending{len(lines), name, k})
							}
						}
						lines = append(lines, fmt.Sprintf("  (%s, %s, %s, %s, %s)", cs(fn), cs(name), cs(ft), cs(anyExprText(target)), cs(cl)))
					}
					return true
				})
				ctxFresh[name] = freshExpr
			}
		}
		for _, pd := range pend {
			sites, allFresh := 0, true
			for _, fd := range allFuncs {
				fe := ctxFresh[fd.name]
				ast.Inspect(fd.decl.Body, func(n ast.Node) bool {
					c, ok := n.(*ast.CallExpr)
					if !ok {
						return true
					}
					callee := ""
					switch x := c.Fun.(type) {
					case *ast.Ident:
						callee = x.Name
					case *ast.SelectorExpr:
						callee = x.Sel.Name
					}
					if callee == pd.fn && len(c.Args) > pd.idx {
						sites++
						if fe == nil || !fe(c.Args[pd.idx]) {
							allFresh = false
						}
					}
					return true
				})
			}
			if sites > 0 && allFresh {
				lines[pd.line] = strings.TrimSuffix(lines[pd.line], cs("shared")+")") + cs("fresh") + ")"
			}
		}
		pln(strings.Join(lines, ";\n"))
		pln("].")

	})
	section("Definition go_map_iteration : list (string * string * string) := [(\"<unrecognised>\", \"\", \"\")].\n", func() {
		// every function of the evaluation files that enumerates a map through reflect (MapKeys, MapRange), as (file, function, class):
		//   "sorted-bytewise": the keys are sorted, before anything else is done with them, by a comparison this extractor recognises
		//                      as the byte order of their String() - sort.Slice / sort.SliceStable with `k[i].String() < k[j].String()`,
		//                      or slices.SortFunc / SortStableFunc with strings.Compare / cmp.Compare of the two String()s;
		//   "unsorted":        no sort of the enumerated keys in the function;
		//   "other: <text>":   a sort whose comparison is not one of those forms.
		pln("(* (file, function, class) of every function that enumerates a map *)")
		pln("Definition go_map_iteration : list (string * string * string) := [")
		var lines []string
		stringOf := func(e ast.Expr) ast.Expr { // X.String() -> X
			c, ok := e.(*ast.CallExpr)
			if !ok || len(c.Args) != 0 {
				return nil
			}
			se, ok := c.Fun.(*ast.SelectorExpr)
			if !ok || se.Sel.Name != "String" {
				return nil
			}
			return se.X
		}
		indexed := func(e ast.Expr, coll, idx string) bool { // coll[idx]
			ix, ok := e.(*ast.IndexExpr)
			return ok && anyExprText(ix.X) == coll && anyExprText(ix.Index) == idx
		}
		singleReturn := func(fl *ast.FuncLit) ast.Expr {
			if fl == nil || len(fl.Body.List) != 1 {
				return nil
			}
			rs, ok := fl.Body.List[0].(*ast.ReturnStmt)
			if !ok || len(rs.Results) != 1 {
				return nil
			}
			return rs.Results[0]
		}
		paramNames := func(fl *ast.FuncLit) (ns []string) {
			for _, f := range fl.Type.Params.List {
				for _, n := range f.Names {
					ns = append(ns, n.Name)
				}
			}
			return
		}
		classify := func(c *ast.CallExpr, keys string) string {
			callee := anyExprText(c.Fun)
			text := anyExprText(c)
			if len(c.Args) != 2 || anyExprText(c.Args[0]) != keys {
				return "other: " + text
			}
			fl, _ := c.Args[1].(*ast.FuncLit)
			ret := singleReturn(fl)
			if ret == nil {
				return "other: " + text
			}
			ps := paramNames(fl)
			if len(ps) != 2 {
				return "other: " + text
			}
			switch callee {
			case "sort.Slice", "sort.SliceStable":
				be, ok := ret.(*ast.BinaryExpr)
				if ok && be.Op.String() == "<" {
					l, r := stringOf(be.X), stringOf(be.Y)
					if l != nil && r != nil && indexed(l, keys, ps[0]) && indexed(r, keys, ps[1]) {
						return "sorted-bytewise"
					}
				}
			case "slices.SortFunc", "slices.SortStableFunc":
				ce, ok := ret.(*ast.CallExpr)
				if ok && len(ce.Args) == 2 && (anyExprText(ce.Fun) == "strings.Compare" || anyExprText(ce.Fun) == "cmp.Compare") {
					l, r := stringOf(ce.Args[0]), stringOf(ce.Args[1])
					if l != nil && r != nil && anyExprText(l) == ps[0] && anyExprText(r) == ps[1] {
						return "sorted-bytewise"
					}
				}
			}
			return "other: " + text
		}
		for _, fn := range []string{"evaluate.go", "filter.go", "bexpr.go"} {
			f := parse(filepath.Join(root, fn))
			for _, d := range f.Decls {
				fd, ok := d.(*ast.FuncDecl)
				if !ok || fd.Body == nil {
					continue
				}
				// the variables that receive MapKeys(), and whether MapRange is used
				var keyVars []string
				enumerates := false
				ast.Inspect(fd.Body, func(n ast.Node) bool {
					switch x := n.(type) {
					case *ast.AssignStmt:
						for i, rhs := range x.Rhs {
							if c, ok := rhs.(*ast.CallExpr); ok {
								if se, ok := c.Fun.(*ast.SelectorExpr); ok && se.Sel.Name == "MapKeys" && i < len(x.Lhs) {
									keyVars = append(keyVars, anyExprText(x.Lhs[i]))
								}
							}
						}
					case *ast.CallExpr:
						if se, ok := x.Fun.(*ast.SelectorExpr); ok && (se.Sel.Name == "MapKeys" || se.Sel.Name == "MapRange") {
							enumerates = true
						}
					}
					return true
				})
				if !enumerates {
					continue
				}
				class := "unsorted"
				isSortOn := func(st ast.Stmt, kv string) *ast.CallExpr {
					es, ok := st.(*ast.ExprStmt)
					if !ok {
						return nil
					}
					c, ok := es.X.(*ast.CallExpr)
					if !ok || len(c.Args) == 0 || anyExprText(c.Args[0]) != kv {
						return nil
					}
					callee := anyExprText(c.Fun)
					if strings.HasPrefix(callee, "sort.") || strings.HasPrefix(callee, "slices.Sort") {
						return c
					}
					return nil
				}
				// the sort has to be the statement right after the enumeration, in the same statement list (not under a condition)
				direct := map[string]bool{}
				visitList := func(list []ast.Stmt) {
					for k, st := range list {
						as, ok := st.(*ast.AssignStmt)
						if !ok || len(as.Rhs) != 1 || len(as.Lhs) != 1 {
							continue
						}
						c, ok := as.Rhs[0].(*ast.CallExpr)
						if !ok {
							continue
						}
						if se, ok := c.Fun.(*ast.SelectorExpr); !ok || se.Sel.Name != "MapKeys" {
							continue
						}
						kv := anyExprText(as.Lhs[0])
						if k+1 < len(list) {
							if sc := isSortOn(list[k+1], kv); sc != nil {
								cl := classify(sc, kv)
								direct[anyExprText(sc)] = true
								if class == "unsorted" || cl != "sorted-bytewise" {
									class = cl
								}
							}
						}
					}
				}
				ast.Inspect(fd.Body, func(n ast.Node) bool {
					switch x := n.(type) {
					case *ast.BlockStmt:
						visitList(x.List)
					case *ast.CaseClause:
						visitList(x.Body)
					case *ast.CommClause:
						visitList(x.Body)
					}
					return true
				})
				// any other sort of the enumerated keys (under a condition, later on) is not one this extractor vouches for
				ast.Inspect(fd.Body, func(n ast.Node) bool {
					es, ok := n.(*ast.ExprStmt)
					if !ok {
						return true
					}
					for _, kv := range keyVars {
						if sc := isSortOn(es, kv); sc != nil && !direct[anyExprText(sc)] {
							class = "other: " + anyExprText(sc) + " (not the statement right after the enumeration)"
						}
					}
					return true
				})
				lines = append(lines, fmt.Sprintf("  (%s, %s, %s)", cs(fn), cs(fd.Name.Name), cs(class)))
			}
		}
		pln(strings.Join(lines, ";\n"))
		pln("].")
	})
	os.Stdout.Write(out.Bytes())
}
