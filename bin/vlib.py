#!/usr/bin/env python3
"""Shared machinery of bin/setup and bin/check: regeneration of the generated Coq files from /repo,
the Coq build, extraction, the Go harness build, the model driver, comparison, evidence."""
import fcntl, hashlib, json, os, re, shutil, subprocess, sys, time

VERIF = os.path.dirname(os.path.dirname(os.path.abspath(__file__)))
REPO = os.environ.get("VERIF_REPO", "/repo")
COQ = os.path.join(VERIF, "coq")
BUILD = os.path.join(VERIF, "build")
BIN = os.path.join(BUILD, "bin")
OCAML = os.path.join(BUILD, "ocaml")
NCPU = os.cpu_count() or 4

GOENV = dict(os.environ, GOFLAGS="-mod=mod", GOPROXY="off", GOSUMDB="off", GOTOOLCHAIN="local", CGO_ENABLED=os.environ.get("CGO_ENABLED", "0"))


def sh(cmd, cwd=None, env=None, timeout=None, inp=None):
    """run a command, return (rc, combined output)"""
    try:
        p = subprocess.run(cmd, cwd=cwd, env=env, shell=isinstance(cmd, str), stdout=subprocess.PIPE, stderr=subprocess.STDOUT,
                           timeout=timeout, input=inp)
        return p.returncode, p.stdout.decode("utf-8", "replace")
    except subprocess.TimeoutExpired as e:
        return 124, (e.stdout or b"").decode("utf-8", "replace") + "\nTIMEOUT after %ss" % timeout


class Lock:
    """serialises regeneration and builds, so checks may be started concurrently"""
    def __enter__(self):
        os.makedirs(BUILD, exist_ok=True)
        self.f = open(os.path.join(BUILD, ".lock"), "w")
        fcntl.flock(self.f, fcntl.LOCK_EX)
        return self
    def __exit__(self, *a):
        fcntl.flock(self.f, fcntl.LOCK_UN)
        self.f.close()


def write_if_changed(path, content):
    try:
        with open(path) as f:
            if f.read() == content:
                return False
    except FileNotFoundError:
        pass
    tmp = path + ".tmp"
    with open(tmp, "w") as f:
        f.write(content)
    os.replace(tmp, path)
    os.utime(path, None)
    return True


TOOLS = ["gogrammar", "pegread", "gotables", "unitables"]


def build_tools(force=False):
    os.makedirs(BIN, exist_ok=True)
    for t in TOOLS:
        src = os.path.join(VERIF, "tools", t)
        out = os.path.join(BIN, t)
        newest = max(os.path.getmtime(os.path.join(src, f)) for f in os.listdir(src))
        if force or not os.path.exists(out) or os.path.getmtime(out) < newest:
            rc, o = sh(["go", "build", "-o", out, "."], cwd=src, env=GOENV, timeout=600)
            if rc != 0:
                raise RuntimeError("building tool %s failed:\n%s" % (t, o))


def regenerate():
    """T1-T4: rewrite coq/GoGrammar.v, PegGrammar.v, GoTables.v, Unicode.v from the current /repo tree.
    Returns {file: error text} for translators that could not read what they expect."""
    build_tools()
    errs = {}
    jobs = [
        ("GoGrammar.v", [os.path.join(BIN, "gogrammar"), os.path.join(REPO, "grammar", "grammar.go")]),
        ("PegGrammar.v", [os.path.join(BIN, "pegread"), os.path.join(REPO, "grammar", "grammar.peg")]),
        ("GoTables.v", [os.path.join(BIN, "gotables"), REPO]),
        ("Unicode.v", [os.path.join(BIN, "unitables")]),
    ]
    for name, cmd in jobs:
        p = subprocess.run(cmd, stdout=subprocess.PIPE, stderr=subprocess.PIPE, env=GOENV)
        if p.returncode != 0 or not p.stdout.strip():
            errs[name] = (p.stderr.decode("utf-8", "replace") or "translator produced no output")[-2000:]
            # an empty file: dependants then fail on the missing names instead of silently using a stale table
            write_if_changed(os.path.join(COQ, name), "(* translator failed on the current tree *)\n")
        else:
            text = p.stdout.decode("utf-8")
            if name == "GoTables.v":
                text = dynamic_tables(text)
            write_if_changed(os.path.join(COQ, name), text)
    return errs


DYN_TABLES = ["go_string_UnaryOperator", "go_string_BinaryOperator", "go_string_MatchOperator", "go_not_present"]


def dynamic_tables(text):
    """The exported operator methods of grammar/ast.go (String, NotPresentDisposition): when the static translator cannot read one
    of them as a switch (a lookup table, a helper), the table is obtained by calling the method on every declared constant and on
    values outside the range (harness/cmd/dyntables, built against the tree under test)."""
    marker = ' : list (string * string) := [("<unrecognised>", "")].'
    missing = [n for n in DYN_TABLES if ("Definition " + n + marker) in text]
    if not missing:
        return text
    hdir = os.path.join(VERIF, "harness")
    out = os.path.join(BIN, "dyntables")
    cmd = ["go", "build", "-o", out]
    try:
        shutil.copy(os.path.join(REPO, "go.sum"), os.path.join(hdir, "go.sum"))
        if REPO != "/repo":
            mod = open(os.path.join(hdir, "go.mod")).read().replace("=> /repo", "=> " + REPO)
            mf = os.path.join(BUILD, "harness_alt.mod")
            open(mf, "w").write(mod)
            shutil.copy(os.path.join(REPO, "go.sum"), os.path.join(BUILD, "harness_alt.sum"))
            cmd += ["-modfile", mf]
        rc, o = sh(cmd + ["./cmd/dyntables"], cwd=hdir, env=GOENV, timeout=600)
        if rc != 0:
            return text
        p = subprocess.run([out], stdout=subprocess.PIPE, stderr=subprocess.PIPE, timeout=60)
        if p.returncode != 0:
            return text
        dyn = p.stdout.decode("utf-8")
    except Exception:
        return text
    for n in missing:
        m = re.search(r"Definition %s : list \(string \* string\) := \[\n.*?\n\]\.\n" % re.escape(n), dyn, re.S)
        if m:
            text = text.replace("Definition " + n + marker + "\n", "(* read by calling the method on every declared constant: the source is no longer a switch the translator reads *)\n" + m.group(0))
    return text


def coq_makefile():
    mk = os.path.join(COQ, "Makefile")
    cp = os.path.join(COQ, "_CoqProject")
    if not os.path.exists(mk) or os.path.getmtime(mk) < os.path.getmtime(cp):
        rc, o = sh(["coq_makefile", "-f", "_CoqProject", "-o", "Makefile"], cwd=COQ, timeout=120)
        if rc != 0:
            raise RuntimeError("coq_makefile failed:\n" + o)


def make_targets(targets, timeout=900):
    """full .vo build of the given targets (and what they depend on); returns (ok, log)"""
    coq_makefile()
    rc, o = sh(["make", "-k", "-j%d" % NCPU] + targets, cwd=COQ, timeout=timeout)
    return rc == 0, o


FAIL_RE = re.compile(r'File "\./([A-Za-z0-9_]+\.v)", line (\d+), characters [\d-]+:\s*\n(?:Warning:[^\n]*\n(?:[^\n]*\n)*?)?Error')


def failing_obligations(log):
    """from a make log: [(file, line, enclosing lemma name, first error lines)]"""
    out = []
    for m in re.finditer(r'File "\./([A-Za-z0-9_]+\.v)", line (\d+), characters [\d-]+:\nError:?([^\n]*\n(?:[^\n]*\n){0,6})', log):
        fn, line, msg = m.group(1), int(m.group(2)), m.group(3)
        name = "?"
        try:
            src = open(os.path.join(COQ, fn)).read().split("\n")
            for i in range(min(line, len(src)) - 1, -1, -1):
                mm = re.match(r"\s*(Lemma|Theorem|Corollary|Example|Definition|Fixpoint|Fact|Remark)\s+([A-Za-z0-9_']+)", src[i])
                if mm:
                    name = mm.group(2)
                    break
        except OSError:
            pass
        out.append({"file": fn, "line": line, "in": name, "error": " ".join(msg.split())[:400]})
    return out


def compile_property_file(pfile, timeout=600):
    """(re)compile coq/P_Cnn.v to get its Print Assumptions output. Returns (ok, theorems, assumptions, log)"""
    src = open(os.path.join(COQ, pfile)).read()
    theorems = re.findall(r"^\s*(?:Theorem|Corollary)\s+([A-Za-z0-9_']+)", src, re.M)
    rc, o = sh(["coqc", "-Q", ".", "Bexpr", pfile], cwd=COQ, timeout=timeout)
    closed = o.count("Closed under the global context")
    axioms = []
    for m in re.finditer(r"Axioms:\n((?:.+\n)+?)(?=\S|\Z)", o):
        axioms.append(" ".join(m.group(1).split()))
    return rc == 0, theorems, closed, axioms, o


HYGIENE = re.compile(r"\b(Admitted|admit|Axiom|Axioms|Parameter|Parameters|Conjecture|Admit Obligations|bypass_check|native_compute)\b|Unset\s+(Guard|Positivity|Universe)|type-in-type|impredicative-set")


def strip_comments(s):
    out, depth, i = [], 0, 0
    while i < len(s):
        if s.startswith("(*", i):
            depth += 1; i += 2
        elif s.startswith("*)", i) and depth > 0:
            depth -= 1; i += 2
        else:
            if depth == 0:
                out.append(s[i])
            elif s[i] == "\n":
                out.append("\n")
            i += 1
    return "".join(out)


def hygiene():
    """forbidden constructs anywhere in the development (comments stripped)"""
    hits = []
    for fn in sorted(os.listdir(COQ)):
        if not fn.endswith(".v"):
            continue
        txt = strip_comments(open(os.path.join(COQ, fn)).read())
        for n, line in enumerate(txt.split("\n"), 1):
            m = HYGIENE.search(line)
            if m and "Print Assumptions" not in line:
                hits.append("%s:%d: %s" % (fn, n, line.strip()[:120]))
    for fn in ["_CoqProject"]:
        txt = open(os.path.join(COQ, fn)).read()
        if re.search(r"type-in-type|impredicative-set|-vos|-vok", txt):
            hits.append(fn + ": forbidden flag")
    return hits


def build_model():
    """extract the model (ExtrOcamlBasic only) and build the OCaml driver, when out of date"""
    os.makedirs(OCAML, exist_ok=True)
    drv = os.path.join(OCAML, "mdriver")
    src_driver = os.path.join(VERIF, "ocaml", "mdriver.ml")
    ok, log = make_targets(["ModelApi.vo", "KCheck.vo"])
    if not ok:
        return False, log
    dep = max(os.path.getmtime(os.path.join(COQ, "ModelApi.vo")), os.path.getmtime(src_driver), os.path.getmtime(os.path.join(COQ, "ExtractAll.v")))
    if os.path.exists(drv) and os.path.getmtime(drv) >= dep:
        return True, "driver up to date"
    rc, o = sh(["coqc", "-Q", COQ, "Bexpr", os.path.join(COQ, "ExtractAll.v")], cwd=OCAML, timeout=600)
    if rc != 0:
        return False, o
    shutil.copy(src_driver, os.path.join(OCAML, "mdriver.ml"))
    rc, o2 = sh(["ocamlfind", "ocamlopt", "-O2", "-w", "-a", "model.mli", "model.ml", "mdriver.ml", "-o", "mdriver"], cwd=OCAML, timeout=600)
    if rc != 0:
        return False, o + o2
    return True, o + o2


def build_harness(race=False):
    out = os.path.join(BIN, "harness_race" if race else "harness")
    hdir = os.path.join(VERIF, "harness")
    shutil.copy(os.path.join(REPO, "go.sum"), os.path.join(hdir, "go.sum"))
    env = dict(GOENV)
    cmd = ["go", "build", "-tags", "verif", "-o", out]
    if REPO != "/repo":
        # development only (VERIF_REPO): the same harness built against a scratch copy of the repository
        mod = open(os.path.join(hdir, "go.mod")).read().replace("=> /repo", "=> " + REPO)
        mf = os.path.join(BUILD, "harness_alt.mod")
        open(mf, "w").write(mod)
        shutil.copy(os.path.join(REPO, "go.sum"), os.path.join(BUILD, "harness_alt.sum"))
        cmd += ["-modfile", mf]
    if race:
        env["CGO_ENABLED"] = "1"
        cmd.insert(2, "-race")
    rc, o = sh(cmd + ["."], cwd=hdir, env=env, timeout=900)
    return rc == 0, o


def _big_stack():
    """the extracted renderer and evaluator recurse on the depth of the tree: give the driver the largest stack the system allows"""
    import resource
    soft, hard = resource.getrlimit(resource.RLIMIT_STACK)
    want = hard if hard != resource.RLIM_INFINITY else 4 << 30
    try:
        resource.setrlimit(resource.RLIMIT_STACK, (want, hard))
    except Exception:
        pass


def run_model(run_dir, shards=None):
    """run ocaml/mdriver over run_dir/model_in.sexp (sharded), write model_out.txt; returns list of mismatching line indices"""
    shards = shards or NCPU
    lines = open(os.path.join(run_dir, "model_in.sexp"), "rb").read().split(b"\n")
    if lines and lines[-1] == b"":
        lines.pop()
    n = len(lines)
    if n == 0:
        open(os.path.join(run_dir, "model_out.txt"), "w").close()
        return [], 0
    per = max(200, (n + shards - 1) // shards)
    procs = []
    deft = []
    i = 0
    drv = os.path.join(OCAML, "mdriver")
    while i < n:
        chunk = lines[i:i + per]
        inp = b"\n".join(deft + chunk) + b"\n"
        p = subprocess.Popen([drv], stdin=subprocess.PIPE, stdout=subprocess.PIPE, stderr=subprocess.PIPE, preexec_fn=_big_stack)
        procs.append((p, len(deft), inp))
        deft = deft + [l for l in chunk if l.startswith(b"(deftype")]
        i += per
    # feed all (the inputs are modest in size), then collect
    import threading
    outs = [None] * len(procs)
    def feed(k):
        p, skip, inp = procs[k]
        o, e = p.communicate(inp)
        outs[k] = (o.split(b"\n"), skip, p.returncode, e)
    ths = [threading.Thread(target=feed, args=(k,)) for k in range(len(procs))]
    for t in ths: t.start()
    for t in ths: t.join()
    res = []
    for o, skip, rc, e in outs:
        if o and o[-1] == b"":
            o.pop()
        if rc != 0:
            o = o + [b"DRIVER-CRASHED " + e[:200].replace(b"\n", b" ")]
        res.extend(o[skip:])
    with open(os.path.join(run_dir, "model_out.txt"), "wb") as f:
        f.write(b"\n".join(res) + b"\n")
    return res, n


def outcome_equal(expect, got):
    """canonical comparison: an implementation outcome E carries no error class"""
    if expect == got:
        return True
    if expect == "E" and got.startswith("E:"):
        return True
    return False


def compare(run_dir):
    res, n = run_model(run_dir)
    exp = open(os.path.join(run_dir, "expect.txt"), "rb").read().split(b"\n")
    if exp and exp[-1] == b"":
        exp.pop()
    desc = open(os.path.join(run_dir, "desc.jsonl"), "rb").read().split(b"\n")
    mism = []
    if len(res) != len(exp):
        mism.append({"line": -1, "expect": "%d lines" % len(exp), "model": "%d lines" % len(res), "case": None})
    for i, (a, b) in enumerate(zip(exp, res)):
        a = a.decode("utf-8", "replace"); b = b.decode("utf-8", "replace")
        if not outcome_equal(a, b):
            try:
                d = json.loads(desc[i])
            except Exception:
                d = None
            mism.append({"line": i, "impl": a[:600], "model": b[:600], "case": d})
    return mism, n


def compare_pairs(run_dir):
    """C20: the harness writes the same input twice, first for the grammar.peg table then for the grammar.go table;
    the two model outputs must be equal"""
    res, n = run_model(run_dir)
    desc = open(os.path.join(run_dir, "desc.jsonl"), "rb").read().split(b"\n")
    mism = []
    for i in range(0, len(res) - 1, 2):
        a = res[i].decode("utf-8", "replace"); b = res[i + 1].decode("utf-8", "replace")
        if a != b:
            try:
                d = json.loads(desc[i])
            except Exception:
                d = None
            mism.append({"line": i, "impl": "engine on the grammar.go table: " + b[:500], "model": "engine on the grammar.peg table: " + a[:500], "case": d})
    return mism, n


def coq_deps(files):
    """transitive `From Bexpr Require` dependencies of the given coq/ files (file names)"""
    seen = set()
    def go(f):
        if f in seen:
            return
        seen.add(f)
        try:
            txt = open(os.path.join(COQ, f)).read()
        except OSError:
            return
        for m in re.finditer(r"From Bexpr Require (?:Import|Export) ([^.]*)\.", txt):
            for n in m.group(1).split():
                go(n + ".v")
    for f in files:
        go(f)
    return seen


def known_findings():
    """KNOWN_FINDINGS: lines `finding: property=<id> key=<key> <what fails>` are suppressed (printed as KNOWN-FINDING);
    `fixed:` lines suppress nothing."""
    out = []
    p = os.path.join(VERIF, "KNOWN_FINDINGS")
    if os.path.exists(p):
        for line in open(p):
            line = line.strip()
            m = re.match(r"finding:\s+property=(\S+)\s+key=(\S+)\s+(.*)", line)
            if m:
                out.append({"property": m.group(1), "key": m.group(2), "what": m.group(3)})
    return out


def coqchk(pfile, timeout=3000):
    """independent re-check of the compiled property file and everything it depends on; returns (ok, axioms text)"""
    mod = "Bexpr." + pfile.replace(".v", "")
    rc, o = sh(["coqchk", "-silent", "-o", "-Q", ".", "Bexpr", mod], cwd=COQ, timeout=timeout)
    m = re.search(r"\* Axioms:\s*(.*?)(?=\n\s*\* |\Z)", o, re.S)
    ax = " ".join(m.group(1).split()) if m else "?"
    return rc == 0, ax, o[-1500:]


def grammar_diff():
    """first structural difference between the rule tables read from grammar.go and grammar.peg (both are printed in one
    canonical layout, one node per line): (rule, line in rule, go text, peg text)"""
    def rules(fn, name):
        txt = open(os.path.join(COQ, fn)).read()
        i = txt.find("Definition %s " % name)
        if i < 0:
            return None
        j = txt.find("\n].", i)
        return txt[i:j].split("\n")[1:]
    a, b = rules("GoGrammar.v", "go_grammar"), rules("PegGrammar.v", "peg_grammar")
    if a is None or b is None:
        return {"difference": "a table could not be read"}
    rule = "?"
    for k in range(max(len(a), len(b))):
        la = a[k] if k < len(a) else "<missing>"
        lb = b[k] if k < len(b) else "<missing>"
        m = re.search(r'rname := "([^"]*)"', la) or re.search(r'rname := "([^"]*)"', lb)
        if m:
            rule = m.group(1)
        if la != lb:
            return {"rule": rule, "node_line": k + 1, "grammar.go": la.strip(), "grammar.peg": lb.strip()}
    ga = open(os.path.join(COQ, "GoGrammar.v")).read()
    pa = open(os.path.join(COQ, "PegGrammar.v")).read()
    A = re.findall(r'\("([A-Za-z0-9_]+)", (\[[^\]]*\]),(?: \[[^\]]*\],)?\n\s+(\[.*?\])\)[;\n]', ga[ga.find("Definition go_actions"):], re.S)
    B = re.findall(r'\("([A-Za-z0-9_]+)", (\[[^\]]*\]),\n\s+(\[.*?\])\)[;\n]', pa[pa.find("Definition peg_actions"):], re.S)
    for x, y in zip(A, B):
        if x[0] != y[0] or x[-1] != y[-1]:
            return {"action": x[0] + " / " + y[0], "grammar.go tokens": x[-1][:400], "grammar.peg tokens": y[-1][:400]}
    if len(A) != len(B):
        return {"difference": "%d action functions in grammar.go, %d code blocks in grammar.peg" % (len(A), len(B))}
    return None
