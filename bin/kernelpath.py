#!/usr/bin/env python3
"""Kernel path: evaluate a sample of a run's model commands inside Coq (vm_compute) and compare with the
output of the extracted OCaml model for the same commands (coq/KCheck.v does the comparison)."""
import os, re, subprocess, sys


def parse_sx(s):
    pos = 0
    n = len(s)

    def item():
        nonlocal pos
        while pos < n and s[pos] in " \t":
            pos += 1
        if s[pos] == "(":
            pos += 1
            acc = []
            while True:
                while pos < n and s[pos] in " \t":
                    pos += 1
                if s[pos] == ")":
                    pos += 1
                    return acc
                acc.append(item())
        st = pos
        while pos < n and s[pos] not in " ()":
            pos += 1
        return s[st:pos]
    return item()


def zl(h):  # "h:6162" -> Coq list Z
    b = bytes.fromhex(h[2:])
    return "[" + ";".join(str(x) for x in b) + "]%Z"


def cs(h):
    return "(bs " + zl(h) + ")"


class Conv:
    def __init__(self):
        self.types = {}

    def ty(self, t):
        if isinstance(t, str):
            return t
        k = t[0]
        if k in ("TInt", "TUint"):
            return "(%s %s)" % (k, t[1])
        if k == "TNamed":
            return "(TNamed %s %s)" % (cs(t[1]), self.ty(t[2]))
        if k in ("TPtr", "TSlice"):
            return "(%s %s)" % (k, self.ty(t[1]))
        if k == "TArray":
            return "(TArray %s %s)" % (t[1], self.ty(t[2]))
        if k == "TMap":
            return "(TMap %s %s)" % (self.ty(t[1]), self.ty(t[2]))
        if k == "TRef":
            return self.types[t[1]]
        if k == "TStruct":
            fs = []
            for f in t[2]:
                tags = "; ".join("(%s, %s)" % (cs(a), cs(b)) for a, b in f[3])
                fs.append("FD %s %s [%s] %s" % (cs(f[1]), f[2], tags, self.ty(f[4])))
            return "(TStruct %s [%s])" % (cs(t[1]), "; ".join(fs))
        raise ValueError("type " + str(t))

    def val(self, v):
        if isinstance(v, str):
            return v
        k = v[0]
        if k == "VBool":
            return "(VBool %s)" % v[1]
        if k in ("VInt", "VUint", "VF32", "VF64"):
            return "(%s (%s)%%Z)" % (k, v[1])
        if k == "VStr":
            return "(VStr %s)" % cs(v[1])
        if k == "VPtr":
            return "(VPtr %s)" % self.val(v[1])
        if k == "VIface":
            return "(VIface %s %s)" % (self.ty(v[1]), self.val(v[2]))
        if k == "VSlice":
            return "(VSlice %s [%s])" % (v[1], "; ".join(self.val(x) for x in v[2]))
        if k == "VArray":
            return "(VArray [%s])" % "; ".join(self.val(x) for x in v[1])
        if k == "VMap":
            return "(VMap %s [%s])" % (v[1], "; ".join("(%s, %s)" % (self.val(a), self.val(b)) for a, b in v[2]))
        if k == "VStruct":
            return "(VStruct [%s])" % "; ".join(self.val(x) for x in v[1])
        raise ValueError("value " + str(v))

    def iface(self, i):
        if i == "none":
            return "None"
        return "(Some (%s, %s))" % (self.ty(i[1]), self.val(i[2]))

    def sel(self, s):
        return "{| stype := %s; spath := [%s] |}" % (s[1], "; ".join(cs(p) for p in s[2]))

    def expr(self, e):
        k = e[0]
        if k == "ENot":
            return "(ENot %s)" % self.expr(e[1])
        if k == "EBin":
            return "(EBin %s %s %s)" % (e[1], self.expr(e[2]), self.expr(e[3]))
        if k == "EMatch":
            v = "None" if e[3] == "none" else "(Some %s)" % cs(e[3][1])
            return "(EMatch %s %s %s)" % (self.sel(e[1]), e[2], v)
        if k == "EColl":
            b = e[3]
            return "(EColl %s %s {| bmode := %s; bdefault := %s; bindex := %s; bvalue := %s |} %s)" % (
                e[1], self.sel(e[2]), b[1], cs(b[2]), cs(b[3]), cs(b[4]), self.expr(e[4]))
        raise ValueError("expr " + str(e))


CLS = {"T": 0, "F": 1, "E": 2, "X": 3, "P": 4}


def build_cases(run_dir, want=120):
    """pick evenly spaced supported lines; return (coq case list text, count). Parses are bounded in total parser steps
    (the engine runs about a hundred times slower under vm_compute than extracted), long ones are left to the extracted model."""
    step_budget = [want * 1500]
    cmds = open(os.path.join(run_dir, "model_in.sexp"), encoding="utf-8", errors="surrogateescape").read().split("\n")
    outs = open(os.path.join(run_dir, "model_out.txt"), encoding="utf-8", errors="surrogateescape").read().split("\n")
    conv = Conv()
    idx = [i for i, c in enumerate(cmds) if c.startswith("(parse ") or c.startswith("(eval ") or c.startswith("(dump ")]
    step = max(1, len(idx) // want)
    chosen = set(idx[::step][:want])
    cases = []
    for i, c in enumerate(cmds):
        if c.startswith("(deftype "):
            sx = parse_sx(c)
            conv.types[sx[1]] = conv.ty(sx[2])
            continue
        if i not in chosen or i >= len(outs):
            continue
        o = outs[i]
        try:
            sx = parse_sx(c)
            if sx[0] == "parse":
                mx = "None" if sx[2] == "none" else "(Some %s%%N)" % sx[2]
                peg = "true" if sx[1] == "peg" else "false"
                try:
                    nsteps = int(o.split(" ")[1])
                except (ValueError, IndexError):
                    continue
                if nsteps > step_budget[0]:
                    continue
                step_budget[0] -= nsteps
                if o.startswith("A "):
                    _, steps, tree = o.split(" ", 2)
                    if tree == "NOTEXPR":
                        continue
                    cases.append("KParse %s %s %s true %s%%N (Some %s) false" % (peg, mx, zl(sx[3]), steps, conv.expr(parse_sx(tree))))
                elif o.startswith("R "):
                    _, steps, m = o.split(" ")
                    cases.append("KParse %s %s %s false %s%%N None %s" % (peg, mx, zl(sx[3]), steps, "true" if m == "1" else "false"))
            elif sx[0] == "eval":
                unk = "None" if sx[2] == "none" else "(Some %s)" % conv.iface(sx[2][1])
                tbl = "; ".join("(%s, %s, %s)" % (zl(p), zl(s), "None" if r == "none" else "(Some %s)" % r) for p, s, r in sx[6])
                cls = CLS[o.split(":")[0]]
                cases.append("KEval %s %s %s %s %s [%s] %d" % (zl(sx[1]), unk, sx[3], conv.expr(sx[4]), conv.iface(sx[5]), tbl, cls))
            elif sx[0] == "dump":
                cases.append("KDump %s %s %s %s" % (zl(sx[1]), sx[2], conv.expr(sx[3]), zl(o)))
        except (ValueError, KeyError, IndexError):
            continue
    return cases


def run(run_dir, coq_dir, work_dir, want=120, timeout=900):
    """returns (ok, n_cases, detail)"""
    cases = build_cases(run_dir, want)
    if not cases:
        return True, 0, "no supported commands"
    os.makedirs(work_dir, exist_ok=True)
    src = ("From Coq Require Import List ZArith String NArith Bool.\nImport ListNotations.\n"
           "From Bexpr Require Import Base Strconv Ast Unicode Peg Actions GoGrammar PegGrammar Univ Eval Api Dump Quote ModelApi KCheck.\n"
           "Definition kcases : list kcase := [\n " + ";\n ".join(cases) + "\n].\n"
           "Definition KM := Eval vm_compute in kmismatches 0 kcases.\nPrint KM.\n")
    f = os.path.join(work_dir, "KCases.v")
    open(f, "w", encoding="utf-8", errors="surrogateescape").write(src)
    try:
        p = subprocess.run(["coqc", "-Q", coq_dir, "Bexpr", "KCases.v"], cwd=work_dir, stdout=subprocess.PIPE, stderr=subprocess.STDOUT, timeout=timeout)
    except subprocess.TimeoutExpired:
        return False, len(cases), "timeout"
    out = p.stdout.decode("utf-8", "replace")
    m = re.search(r"KM\s*=\s*(\[[^\]]*\])", out)
    if p.returncode != 0 or not m:
        return False, len(cases), out[-800:]
    if m.group(1).replace(" ", "") != "[]":
        return False, len(cases), "cases evaluated differently inside Coq and by the extracted code: " + m.group(1)
    return True, len(cases), "agree"


if __name__ == "__main__":
    print(run(sys.argv[1], "/verif/coq", "/verif/build/kernel/manual"))
