#!/usr/bin/env python3
"""Development helper: print the per-property status table of DESIGN.md section 14.7 from the evidence files of the last run."""
import json, os, sys
V = os.path.dirname(os.path.dirname(os.path.abspath(__file__)))
sys.path.insert(0, os.path.join(V, "bin"))
import props
print("| property | statements checked by the kernel (closed, no axioms) | implementation cases per quick run (distinct) | deciding method | labelled |")
print("|---|---|---|---|---|")
for i in range(1, 21):
    pid = "C%02d" % i
    ev = json.load(open(os.path.join(V, "evidence", pid + ".json")))
    cov = ev["coverage"]
    p = props.PROPS[pid]
    expl = p.get("explanation", "")
    label = "partial (logic proved, runtime part observed)" if expl.startswith("PARTIAL") else "proof"
    ref = p.get("reference")
    method = "theorems about the model + direct predicates on the implementation + model/implementation correspondence"
    if ref:
        method = "theorems + the implementation compared with the reference (" + ref[:90] + ")"
    if p.get("race"):
        method = "theorems about programs over shared cells + static write ties + race detector"
    print("| %s | %d (%s ...) | %d (%d) | %s | %s |" % (pid, cov["discharged"], ", ".join(cov["theorems"][:3]), cov["evaluations"], cov["distinct_nontrivial"], method, label))
