#!/usr/bin/env python3
import sys, os, time
sys.path.insert(0, os.path.dirname(os.path.abspath(__file__)))
import vlib

t0 = time.time()
with vlib.Lock():
    vlib.build_tools(force=True)
    errs = vlib.regenerate()
    if errs:
        print("translator failures:", errs)
        sys.exit(1)
    vlib.coq_makefile()
    rc, o = vlib.sh(["make", "-j%d" % vlib.NCPU], cwd=vlib.COQ, timeout=3000)
    if rc != 0:
        print(o[-6000:])
        print("setup: Coq build failed")
        sys.exit(1)
    print("setup: Coq development built (%d files)" % len([f for f in os.listdir(vlib.COQ) if f.endswith(".vo")]))
    ok, o = vlib.build_model()
    if not ok:
        print(o[-4000:]); print("setup: model extraction / driver build failed"); sys.exit(1)
    ok, o = vlib.build_harness()
    if not ok:
        print(o[-4000:]); print("setup: harness build failed"); sys.exit(1)
    ok, o = vlib.build_harness(race=True)
    if not ok:
        print(o[-4000:]); print("setup: race harness build failed"); sys.exit(1)
print("setup: done in %.0fs" % (time.time() - t0))
