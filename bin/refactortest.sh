#!/bin/bash
# development tool: apply a behaviour-preserving patch to /repo, run all quick checks, undo; prints which checks raise an alarm
p=$1
cd /verif
[ -z "$(git -C /repo status --porcelain)" ] || { echo "/repo not clean"; exit 2; }
git -C /repo apply "$p" || exit 2
for i in $(seq -w 1 20); do
  out=$(bin/check C$i quick 2>&1)
  if [ $? -ne 0 ]; then echo "ALARM C$i: $(echo "$out" | grep -m1 VIOLATION) :: $(echo "$out" | grep -m1 'no longer checks' | cut -c1-220)"; fi
done
git -C /repo checkout -- .
echo "done $p"
