#!/usr/bin/env python3
"""Writes MANIFEST.json from bin/props.py (development helper; the committed MANIFEST.json is what counts)."""
import json, os, sys
sys.path.insert(0, os.path.dirname(os.path.abspath(__file__)))
from props import PROPS
V = os.path.dirname(os.path.dirname(os.path.abspath(__file__)))
TECH = {
 "C01": "Coq proof of the semantic laws over the validated evaluator model + differential correspondence against that reference interpreter",
 "C02": "Coq proof (digit-list induction for strconv integer parsing, bases 2/8/10/16, bounds) + differential correspondence and strconv model validation",
 "C03": "Coq proof (connective equations over arbitrary leaf semantics) + truth-table and short-circuit predicates on the implementation",
 "C04": "Coq proof (complement lemma per operator pair, absent-key table, action lemmas) + complement predicate on the implementation",
 "C05": "Coq proof (not-present characterisation, table, unknown-value substitution and neutrality) + constructed-absence predicates on the implementation",
 "C06": "Coq proof (fold lemma, substitution lemma eval_subst, unrolling theorems, lexical-scoping equivalence) + unrolling metamorphic check on the implementation",
 "C07": "Coq proof (derived-rule calculus over the regenerated grammar: selector_mixed, selector_pointer_parts; evaluator ignores selector type) + spelling-swap predicate on the implementation",
 "C08": "Coq proof (non-interference by induction over a visible-equality relation) + paired-data predicate on the implementation",
 "C09": "Coq proof (well-typedness preservation, no reflect misuse reachable; error implies false) + exhaustive operator x kind matrix on the implementation",
 "C10": "Coq proof (grammar type soundness + PEG well-formedness/termination) + differential correspondence",
 "C11": "Coq proof (prefix simulation of limited vs unlimited run) + differential correspondence",
 "C12": "Coq proof of the interleaving logic (write-free programs) + Go race detector on a shared evaluator (partial)",
 "C13": "Coq proof (stateless evaluator model) + history replay against fresh evaluators with datum snapshots (partial)",
 "C14": "Coq proof (permutation invariance of sort_keys, evaluation and filtering) + repeated calls under Go's randomised map iteration",
 "C15": "Coq proof (engine = declarative PEG semantics) + differential correspondence against the reference",
 "C16": "Coq proof (rendering relation round trip by mutual induction over the regenerated grammar; Unquote/quote for all byte strings) + render-parse predicate on the implementation",
 "C17": "Coq proof (Execute = filter by is_true, type/order/error laws) + element-wise coherence with Evaluate on the implementation",
 "C18": "Coq proof (options fold algebra, re-issue, neutral settings, hook) + exhaustive option subsets/permutations on the implementation",
 "C19": "Coq proof (dump = rendering of the reference line list) + byte-wise comparison of ExpressionDump with the reference renderer",
 "C20": "Coq proof by reflexivity on two independently regenerated terms",
}
PARTIAL = {"C12", "C13"}
checks = []
for pid in sorted(PROPS):
    cfg = PROPS[pid]
    checks.append({
        "property_id": pid,
        "quick_cmd": "bin/check %s quick" % pid,
        "thorough_cmd": "bin/check %s thorough" % pid,
        "evidence_file": "evidence/%s.json" % pid,
        "replay_cmd_template": "bin/check %s --replay {path}" % pid,
        "engine": "coq-model+correspondence",
        "level_claimed": {"category": "proof", "text": cfg["explanation"] + " Every run regenerates the generated Coq files from /repo, rebuilds and re-checks the theorems (coqc, Print Assumptions), rebuilds the harness against /repo and compares implementation and extracted model on freshly generated cases.",
                          "design_ref": "DESIGN.md section 6 " + pid},
        "level_note": ("PARTIAL: part of this property lives in the Go runtime and is observed, not proved. " if pid in PARTIAL else "") + "Trusted: Coq 8.16.1 kernel (+vm_compute), the translators and harness/serialiser, ExtrOcamlBasic extraction + OCaml driver for running the model, the hand-written model of the evaluator/engine tied by the correspondence. " + "; ".join(cfg["assumptions"]),
        "technique": TECH[pid],
    })
m = {"version": 1, "setup_cmd": "bin/setup",
     "hooks": {"guard": "verif", "enable": "go build -tags verif (the harness module replaces github.com/hashicorp/go-bexpr by /repo)",
               "baseline_off_cmd": "cd /repo && go test -mod=mod -json -vet=off -count=1 -timeout 25m ./...",
               "source_commits": ["1805656"], "add_only": True},
     "engines": [{"name": "coq-model+correspondence", "path": "coq/ tools/ harness/ ocaml/ bin/", "serves_properties": sorted(PROPS),
                  "kind_free_text": "Coq 8.16.1 development (executable model + theorems; statement files coq/P_Cnn.v), translators that regenerate the data parts of the model from /repo on every run, Go harness (-tags verif) + extracted OCaml model for the correspondence, bin/check orchestrating proof obligations, correspondence and the search for a failing input"}],
     "checks": checks, "not_applicable": [],
     "notes": "All 20 properties are claimed; C12 and C13 as partial (see level_note). Checks rebuild from /repo's working tree. KNOWN_FINDINGS lists the 13 repaired defects (fixed: entries suppress nothing)."}
json.dump(m, open(os.path.join(V, "MANIFEST.json"), "w"), indent=1)
print("wrote MANIFEST.json with", len(checks), "checks")
