#!/usr/bin/env python3
"""Development helper (not used by the checks): print the closed statements of the named lemmas as Coq sees them, to
write the P_Cnn.v statement files.  usage: mkprop.py 'Require line' File.name ..."""
import subprocess, sys, re
req = sys.argv[1]
names = sys.argv[2:]
script = req + "\nSet Printing Width 150. Set Printing Depth 100000.\n" + "\n".join('Check @%s.' % n for n in names) + "\n"
p = subprocess.run(["coqtop", "-Q", "/verif/coq", "Bexpr", "-quiet"], input=script.encode(), stdout=subprocess.PIPE, stderr=subprocess.STDOUT, cwd="/verif/coq")
out = p.stdout.decode()
out = re.sub(r"Coq < ", "", out)
for n in names:
    short = n.split(".")[-1]
    m = re.search(r"(?:^|\n)@?%s\n\s+: (.*?)(?=\n\n|\n@?[A-Za-z_0-9']+\n\s+:|\Z)" % re.escape(short), out, re.S)
    if not m:
        print("(* NOT FOUND %s *)" % n); continue
    ty = m.group(1).rstrip()
    print("Theorem %s :\n  %s.\nProof. exact %s. Qed.\nPrint Assumptions %s.\n" % (short, ty.replace("\n       ", "\n  "), n, short))
