#!/bin/bash
# development tool: run all quick checks against a scratch worktree of /repo holding a behaviour-preserving patch (VERIF_REPO);
# prints which checks raise an alarm. usage: refactortest2.sh <patch.diff> <name>
p=$1; name=$2
wt=/tmp/refrun_$name
cd /verif
git -C /repo worktree remove --force $wt 2>/dev/null
git -C /repo worktree add -q --detach $wt HEAD || exit 2
(cd $wt && git apply "$p") || { echo "patch does not apply: $p"; git -C /repo worktree remove --force $wt; exit 2; }
(cd $wt && GOFLAGS=-mod=mod GOPROXY=off GOSUMDB=off GOTOOLCHAIN=local go build ./... && GOFLAGS=-mod=mod GOPROXY=off GOSUMDB=off GOTOOLCHAIN=local go test -count=1 ./... >/dev/null) || echo "NOTE: suite fails with $name"
for i in $(seq -w 1 20); do
  out=$(VERIF_REPO=$wt bin/check C$i quick 2>&1)
  if [ $? -ne 0 ]; then echo "ALARM $name C$i: $(echo "$out" | grep -m1 VIOLATION) :: $(echo "$out" | grep -m2 'no longer checks\|failing input' | cut -c1-300 | tr '\n' ' ')"; fi
done
git -C /repo worktree remove --force $wt; git -C /repo worktree prune
echo "done $name"
