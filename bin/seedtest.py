#!/usr/bin/env python3
"""Development tool: confirm a seeded change (it compiles, passes the existing suite, its demonstration fails with it and
passes without it) in a scratch worktree, then apply it to /repo, run the given checks, and undo it.

usage: seedtest.py <dir with patch.diff demo_test.go notes.txt> <seed-id> <property> [more properties to run...]
Writes /verif/seeded/<seed-id>/ {patch.diff, demo_test.go, meta.json}."""
import json, os, shutil, subprocess, sys, time

VHOME = os.path.dirname(os.path.dirname(os.path.abspath(__file__)))
DEMOFLAGS = os.environ.get("SEED_DEMO_FLAGS", "")
ENV = dict(os.environ, GOFLAGS="-mod=mod", GOPROXY="off", GOSUMDB="off", GOTOOLCHAIN="local")


def sh(cmd, cwd=None, timeout=1800):
    p = subprocess.run(cmd, cwd=cwd, shell=True, env=ENV, stdout=subprocess.PIPE, stderr=subprocess.STDOUT, timeout=timeout)
    return p.returncode, p.stdout.decode("utf-8", "replace")


def main():
    src, sid, prop = sys.argv[1], sys.argv[2], sys.argv[3]
    props = sys.argv[3:]
    patch = os.path.abspath(os.path.join(src, "patch.diff"))
    demo = os.path.join(src, "demo_test.go")
    notes = open(os.path.join(src, "notes.txt")).read() if os.path.exists(os.path.join(src, "notes.txt")) else ""
    wt = "/tmp/seedcheck_" + sid
    sh("git -C /repo worktree remove --force %s" % wt)
    rc, o = sh("git -C /repo worktree add -q --detach %s HEAD" % wt)
    assert rc == 0, o
    meta = {"id": sid, "property": prop, "needs_to_manifest": notes.strip(), "confirmed": {}, "checks": {}}
    try:
        first = open(demo).readline()
        pkgdir = "grammar" if "package-dir: grammar" in first else "."
        dst = os.path.join(wt, pkgdir, "zz_seeded_demo_test.go")
        # clean tree: demo passes
        shutil.copy(demo, dst)
        rc, o = sh("%s go test %s -count=1 -run TestSeededDemo ./%s" % (("CGO_ENABLED=1" if "-race" in DEMOFLAGS else ""), DEMOFLAGS, pkgdir), cwd=wt)
        meta["confirmed"]["demo_passes_on_clean_tree"] = rc == 0
        os.remove(dst)
        rc, o = sh("git apply %s" % patch, cwd=wt)
        meta["confirmed"]["patch_applies"] = rc == 0
        rc, o = sh("go build ./... && go vet ./...", cwd=wt)
        meta["confirmed"]["builds_and_vets"] = rc == 0
        rc, o = sh("go test -count=1 ./...", cwd=wt)
        meta["confirmed"]["existing_suite_passes_with_change"] = rc == 0
        shutil.copy(demo, dst)
        rc, o = sh("%s go test %s -count=1 -run TestSeededDemo ./%s" % (("CGO_ENABLED=1" if "-race" in DEMOFLAGS else ""), DEMOFLAGS, pkgdir), cwd=wt)
        meta["confirmed"]["demo_fails_with_change"] = rc != 0
        meta["confirmed"]["demo_output_tail"] = o[-600:]
    finally:
        sh("git -C /repo worktree remove --force %s" % wt)
    ok = all(v for k, v in meta["confirmed"].items() if isinstance(v, bool))
    meta["kept"] = ok
    print("confirmed:", json.dumps({k: v for k, v in meta["confirmed"].items() if isinstance(v, bool)}))
    if not ok:
        print("NOT KEPT")
        return 1
    scratch = os.environ.get("SEED_SCRATCH")
    if scratch:
        # /repo is in use (a long run reads it): the same checks against a scratch worktree holding the change
        run_wt = "/tmp/seedrun_" + sid
        sh("git -C /repo worktree remove --force %s" % run_wt)
        rc, o = sh("git -C /repo worktree add -q --detach %s HEAD" % run_wt)
        assert rc == 0, o
        rc, o = sh("git apply %s" % patch, cwd=run_wt)
        assert rc == 0, o
        ENV["VERIF_REPO"] = run_wt
    else:
        # run the checks against /repo with the change applied, then undo
        rc, o = sh("git -C /repo status --porcelain")
        assert o.strip() == "", "/repo is not clean: " + o
        rc, o = sh("git -C /repo apply %s" % patch)
        assert rc == 0, o
    try:
        for p in props:
            t0 = time.time()
            rc, o = sh("bin/check %s quick" % p, cwd=VHOME, timeout=3600)
            viol = [l for l in o.split("\n") if l.startswith("VIOLATION")]
            tail = [l for l in o.split("\n") if l.strip()][-1:] if o.strip() else []
            first_fail = [l.strip()[:400] for l in o.split("\n") if l.strip().startswith("failing input:") or l.strip().startswith("no longer checks:")][:3]
            meta["checks"][p] = {"exit": rc, "violation_line": viol[:1], "summary": tail, "first_reports": first_fail, "wall_s": round(time.time() - t0)}
            print(p, "exit", rc, viol[:1], tail)
    finally:
        if scratch:
            sh("git -C /repo worktree remove --force %s" % ENV["VERIF_REPO"])
            sh("git -C /repo worktree prune")
        else:
            sh("git -C /repo checkout -- .")
    meta["caught_by"] = [p for p, v in meta["checks"].items() if v["exit"] != 0]
    meta["what_was_run"] = "scratch worktree: go build, go vet, go test ./... with the change (pass), demo with the change (fail), demo without (pass)" + ((" [demo run with " + DEMOFLAGS + "]") if DEMOFLAGS else "") + ("; then bin/check <property> quick for " + ", ".join(props) + " with VERIF_REPO pointing at a scratch worktree holding the change (/repo was being read by a long run)" if scratch else "; then git -C /repo apply, bin/check <property> quick for " + ", ".join(props) + ", git -C /repo checkout -- .")
    out = os.path.join(VHOME + "/seeded", sid)
    os.makedirs(out, exist_ok=True)
    shutil.copy(patch, os.path.join(out, "patch.diff"))
    shutil.copy(demo, os.path.join(out, "demo_test.go"))
    json.dump(meta, open(os.path.join(out, "meta.json"), "w"), indent=1)
    print("caught by:", meta["caught_by"])
    return 0


if __name__ == "__main__":
    sys.exit(main())
