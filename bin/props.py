"""Per-property configuration of bin/check."""

TRUSTED_COMMON = [
    "Coq 8.16.1 kernel including its vm_compute virtual machine (native_compute is not used); full .vo build, no -vos/-vok",
    "no axioms are declared in the development; Print Assumptions output of every property theorem is recorded in this file",
    "extraction (only to RUN the model in the correspondence check, never for a theorem): Require Import ExtrOcamlBasic only, i.e. its Extract Inductive bool/option/unit/list/prod/sumbool/comparison and Extract Inlined Constant andb/orb/negb/fst/snd; Z, N, positive, nat, ascii, string stay extracted inductives; OCaml 4.13.1; ocaml/mdriver.ml (S-expression reader/printer)",
    "Go harness (harness/, built with -tags verif against /repo): generators, the serialiser of Go values and trees into model terms, canonical printers",
]

T_PARSER = [
    "translator T1 tools/gogrammar (go/ast walk of `var g` and of the on*/callon* functions of grammar/grammar.go)",
    "translator T2 tools/pegread (independent reader of grammar/grammar.peg); go/scanner tokenises code blocks for both T1 and T2",
    "translator T4 tools/unitables (unicode.L, unicode.N and strconv.IsPrint range tables of the installed Go toolchain)",
    "hand-written action semantics coq/Actions.v (tied by actions_pinned and by the parser correspondence on trees)",
    "modelled, not verified: the pigeon runtime is transcribed by hand into coq/Peg.v (tied by the correspondence incl. step counts); farthest-failure bookkeeping, error message texts and Stats.ChoiceAltCnt are not modelled",
    "stdlib models: utf8.DecodeRune, strconv.Unquote (coq/Base.v), validated against the real functions by the L0 correspondence",
]

T_EVAL = [
    "translator T3 tools/gotables (enum orders, String() and NotPresentDisposition tables, kind->coercion and kind->equality tables, strconv call arguments, default options)",
    "hand-written model of evaluate.go / coerce.go / options.go / bexpr.go / filter.go (coq/Eval.v, coq/Api.v) and of pointerstructure.Get + mapstructure weak decoding (modelled, pinned by go.mod), tied by the evaluator correspondence",
    "typed value universe coq/Univ.v: a model of reflect; every reflect call that panics in Go is an explicit Panic outcome",
    "stdlib models: strconv.ParseInt/ParseUint/ParseBool/ParseFloat (coq/Strconv.v), validated against the real functions; regexp is an oracle: a Section variable in the theorems, a finite table of Go's own answers when the model is run",
]

PROPS = {
    "C10": {
        "coq": "P_C10.v", "harness": ["C10"], "trusted": T_PARSER,
        "explanation": "type soundness of the grammar table (accepted => well-formed expression, rejected => non-empty error list) and unconditional termination of the engine on the shipped table, proved for every byte string; tied to the real parser by result shape checks on the implementation and by comparing verdict, tree and step count with the model",
        "assumptions": ["the theorems are about the engine model; that the real parser behaves like it is checked on the generated corpus only"],
    },
    "C11": {
        "coq": "P_C11.v", "harness": ["C11"], "trusted": T_PARSER,
        "explanation": "simulation proof: a limited run is a prefix of the unlimited run; exactness (n >= N same result, n < N rejection after n+1 steps) for every input, budget, fuel and grammar; termination under a budget for any grammar; uint64 wrap-around of the step counter (2^64 steps) is out of scope",
        "assumptions": ["the real engine ticks once per parseExpr like the model: checked by equality of step counts on every generated input"],
    },
    "C15": {
        "coq": "P_C15.v", "harness": ["C15"], "trusted": T_PARSER, "reference": "the declarative PEG semantics of the table read from grammar.peg, run through the engine model",
        "explanation": "engine model proved sound and complete w.r.t. a declarative big-step PEG semantics of the table read from grammar.peg; result independent of fuel; the real parser is compared with that reference (verdict, tree, step count) on exhaustive short token sequences and generated derivations/mutations",
        "assumptions": ["'nothing else is accepted' rests on engine soundness/completeness plus the correspondence; the text->tree direction for an infinite fragment is C16's theorem"],
    },
    "C20": {
        "coq": "P_C20.v", "harness": ["C20"], "trusted": T_PARSER, "reference": "grammar.peg as read by T2",
        "explanation": "complete structural comparison, by the kernel, of the table and action code extracted from grammar.go with those extracted from grammar.peg by an independent reader; source positions are excluded",
        "assumptions": ["T1 and T2 read their inputs faithfully; the initializer block of grammar.peg (package clause, imports, helpers) is not compared"],
    },
}
