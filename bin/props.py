"""Per-property configuration of bin/check."""

TRUSTED_COMMON = [
    "Coq 8.16.1 kernel including its vm_compute virtual machine (native_compute is not used); full .vo build, no -vos/-vok",
    "no axioms are declared in the development; Print Assumptions output of every property theorem is recorded in this file",
    "extraction (only to RUN the model in the correspondence check, never for a theorem): Require Import ExtrOcamlBasic only, i.e. its Extract Inductive bool/option/unit/list/prod/sumbool/comparison and Extract Inlined Constant andb/orb/negb/fst/snd; Z, N, positive, nat, ascii, string stay extracted inductives; OCaml 4.13.1; ocaml/mdriver.ml (S-expression reader/printer)",
    "Go harness (harness/, built with -tags verif against /repo): generators, the serialiser of Go values and trees into model terms, canonical printers",
]

T_PARSER = [
    "translator T1 tools/gogrammar (go/ast walk of `var g` and of the on*/callon* functions of grammar/grammar.go)",
    "translator T2 tools/pegread (independent reader of grammar/grammar.peg); go/scanner tokenises code blocks for both T1 and T2",
    "translator T4 tools/unitables (unicode.L, unicode.N and strconv.IsPrint range tables of the installed Go toolchain)",
    "hand-written action semantics coq/Actions.v (tied by actions_pinned and by the parser correspondence on trees)",
    "modelled, not verified: the pigeon runtime is transcribed by hand into coq/Peg.v (tied by the correspondence incl. step counts); farthest-failure bookkeeping, error message texts and Stats.ChoiceAltCnt are not modelled",
    "stdlib models: utf8.DecodeRune, strconv.Unquote (coq/Base.v), validated against the real functions by the L0 correspondence",
]

T_EVAL = [
    "translator T3 tools/gotables (enum orders, String() and NotPresentDisposition tables, kind->coercion and kind->equality tables, strconv call arguments, default options)",
    "hand-written model of evaluate.go / coerce.go / options.go / bexpr.go / filter.go (coq/Eval.v, coq/Api.v) and of pointerstructure.Get + mapstructure weak decoding (modelled, pinned by go.mod), tied by the evaluator correspondence",
    "typed value universe coq/Univ.v: a model of reflect; every reflect call that panics in Go is an explicit Panic outcome",
    "stdlib models: strconv.ParseInt/ParseUint/ParseBool/ParseFloat (coq/Strconv.v), validated against the real functions; regexp is an oracle: a Section variable in the theorems, a finite table of Go's own answers when the model is run",
]

T_API = T_EVAL + ["hand-written model of options.go / bexpr.go / filter.go (coq/Api.v); the hook family of coq/ModelApi.v mirrors harness hookFn"]

def P(coq, harness, trusted, explanation, assumptions, reference=None, race=False):
    d = {"coq": coq, "harness": harness, "trusted": trusted, "explanation": explanation, "assumptions": assumptions}
    if reference:
        d["reference"] = reference
    if race:
        d["race"] = True
    return d

MODEL_NOTE = "the theorems are about the Coq model; they reach the Go code through the per-run correspondence (same inputs, compared observables), whose strength is the generator's"

PROPS = {
    "C01": P("P_C01.v", ["C01"], T_EVAL,
        "the semantic laws of the documented semantics (selector steps through maps, structs, slices, pointers and interfaces; operators per value class; representation transparency) are theorems about the model; the model is the independent interpreter the implementation is compared with on the product generator, and the same logical document in six Go representations must give one outcome",
        [MODEL_NOTE, "an independent specification of the documented semantics (jeval, coq/JsonEval.v) is proved equal to the model's Evaluate for JSON documents only (json_eval, json_eval_unknown: every well-formed expression, every document, with or without an unknown value, no hook) and compared with the implementation on decoded documents; for the typed Go universe the model itself is the reference; *interface{} is not treated as a representation of a document (the lookup does not alternate pointer and interface unwrapping)"],
        reference="the Coq model of the documented semantics (coq/Eval.v), validated operator by operator"),
    "C02": P("P_C02.v", ["C02"], T_EVAL,
        "decimal/hex/octal/binary integer literals of every canonical digit list parse to exactly the value they denote up to the int64/uint64 bounds and are range errors beyond (proved over digit lists, integers are Z); equality in the model compares in the value's own class; the float parser reads the literal as an exact rational and rounds it once, and that rounding is proved to be round-to-nearest, ties to even, onto the floats of the width (round_rat_canonical, round_rat_nearest, round_rat_ties_to_even: every positive rational, every precision and exponent range; the overflow/underflow shortcuts of the model are proved to select what the rounding itself gives; number_literal_nearest: for every number literal of the grammar ([-]digits[.digits]) the bits returned are those of a nearest float of the width to the number the characters denote, from the characters to the bits; sci_literal_nearest, hex_literal_nearest: the same for literals with an exponent and for hexadecimal float literals)",
        [MODEL_NOTE, "nearest-float-ness is proved for the rounding step over integers (floats as pairs m * 2^e, distances cross-multiplied); that the characters of the literal denote the rational handed to it is proved for every number literal the grammar can spell ([-]digits[.digits]) and for literals with an exponent and for hexadecimal float literals, a leading + is proved neutral (plus_sign_neutral); validated only: underscores and upper-case hexadecimal digits (quoted literals only); that strconv.ParseFloat computes the same float is the correspondence (C02 matrix incl. the double-rounding and midpoint witnesses); no reference to Flocq's definition of IEEE-754 rounding"],
        reference="literals rendered from a chosen value: == must be true iff the values are equal"),
    "C03": P("P_C03.v", ["C03"], T_EVAL,
        "and/or/not equations over arbitrary leaf semantics: the composite outcome is a function of the operands' outcomes, left to right, with short-circuit; double negation, unreached errors, De Morgan",
        [MODEL_NOTE]),
    "C04": P(["P_C04.v", "P_C04g.v"], ["C04"], T_EVAL + T_PARSER,
        "negated operators are flip_if_ok of the positive ones for every selector, literal, datum and binding stack; the absent-key table is complementary; not(positive) = negative; contains/in build the same tree (grammar actions)",
        [MODEL_NOTE]),
    "C05": P("P_C05.v", ["C05"], T_EVAL,
        "characterisation of the not-present rule (>= 2 parts, parent resolves to reflect kind Map), the table, errors elsewhere, exact substitution of the unknown value per selector, neutrality when every selector resolves",
        [MODEL_NOTE, "a *map parent does not get the table (interpretation recorded in DESIGN.md section 8)"],
        reference="the documented absent-key table / the unknown value substituted per selector"),
    "C06": P("P_C06.v", ["C06"], T_EVAL, reference="the lexically scoped fold semantics (lex_eval, proved equal to the model evaluator)", explanation=
        "the quantifier loop is the left-to-right fold of the C03 connectives over the element bodies; a value binding is a substitution (eval_subst), hence any/all = the unrolled disjunction/conjunction for lists and string-keyed maps; resolution through the binding stack is lexical scoping",
        assumptions=[MODEL_NOTE]),
    "C07": P("P_C07.v", ["C07"], T_PARSER + T_EVAL,
        "parser half: every mix of .name/.digits/[\"literal\"] spellings and the JSON-Pointer spelling is read as the same path (declarative semantics of the regenerated table); ~0/~1 unescape inverts escape for all strings; evaluator half: eval depends on a selector only through its path",
        [MODEL_NOTE, "pointer segments the action rejects are covered by the correspondence only"]),
    "C08": P("P_C08.v", ["C08"], T_API,
        "non-interference: two data related by visible_eq (equal except below unexported fields and fields tagged - under the tag in force) give equal outcomes for every expression, and equal filter selections; renamed fields resolve only under the tag",
        [MODEL_NOTE, "hook-free configurations"]),
    "C09": P("P_C09.v", ["C09"], T_EVAL,
        "no reflect call of the model is applied to a kind on which it panics (Panic is an explicit outcome): for every well-formed tree and well-typed datum eval never yields Panic, and an error always comes with false; the operator x kind matrix is enumerated exhaustively on the implementation",
        [MODEL_NOTE, "hook = None in c09_no_panic (a hook must preserve well-typedness)"]),
    "C12": P("P_C12.v", ["C12"], T_API,
        "PARTIAL. Logic part proved: programs over shared cells under an arbitrary interleaving - write-free programs leave the store unchanged, return what they return sequentially and never conflict. Runtime part not provable here: that the Go code performs no other shared write and the Go memory model; tied by running 16 goroutines on one shared evaluator/filter under the race detector (first use included), comparing with sequential results and snapshotting the shared tree",
        ["the race detector only judges the accesses that occur in the run", "Go memory model, scheduler and GC are not modelled"], race=True),
    "C13": P("P_C13.v", ["C13"], T_API,
        "PARTIAL. The model's evaluator is stateless: the result after any history equals the fresh result; Expression() is the creation string. That the Go code never writes to the caller's datum is true by construction in a functional model; on the code side it is tied at run time (serialise before/after every call, histories against fresh evaluators) and statically (TieWrites.v over tables T3 regenerates from the source: no assignment to anything shared and no writing call on anything but a container the function made itself in any function reachable from Evaluate / Execute; no package-level variable that is written)",
        [MODEL_NOTE, "absence of writes to caller memory is observed, not proved"]),
    "C14": P("P_C14.v", ["C14"], T_API,
        "map iteration order is an adversarial permutation of the entry list: sort_keys is permutation-invariant, evaluation is invariant under permutation of duplicate-free maps - string-keyed (which quantifiers visit in sorted key order) and with any other key type (indexed and tested for membership only) - anywhere in the datum, in any number of places; filter results are permutation-related; the implementation is called repeatedly under Go's randomised iteration",
        [MODEL_NOTE, "hook-free configurations; the entry lists are duplicate-free under the lookup's key comparison (a Go map cannot hold two equal keys; NaN keys, which are never equal to anything, are allowed)"]),
    "C16": P("P_C16.v", ["C16"], T_PARSER + T_EVAL,
        "the rendering relation RF (all layouts, redundant parentheses, precedence, every match operator, quantifiers with four binding forms, selector spellings, quoted/raw/bare/integer literals) is read back by the parser as the tree, for trees of unbounded depth; Unquote(quote_double s) = s and the Parse-level literal fidelity theorem hold for EVERY byte string; not-not folding",
        [MODEL_NOTE, "side conditions of the proved family (stated in the records the theorem ranges over): a bare name at the head of an expression is not the keyword `not`, the name of a quantified selector is none of `contains not matches is in`, a double-quoted literal of the operator grid does not begin with `/` (the D9 family is c16_literal_fidelity_all's)"]),
    "C17": P("P_C17.v", ["C17"], T_API,
        "Execute on slices, arrays and maps keeps exactly the elements on which evaluate is true, in order, with the stated result type; nil filter identity; first error; non-containers are errors; idempotence; partition",
        [MODEL_NOTE, "input immutability: observed at run time (the input serialised before and after every call) and tied statically - every call that can write through its target on the evaluation path (append, copy, reflect.Append, SetMapIndex, sort ...) targets a container the function made itself (TieWrites.v, regenerated from filter.go / evaluate.go on every run)"],
        reference="the model's execute (kept = filter is_true) and element-wise coherence with Evaluate"),
    "C18": P("P_C18.v", ["C18"], T_API,
        "options fold: distinct kinds commute, last wins, nil ignored, creation options are re-issued on every Evaluate, neutral settings (tag bexpr, budget 0 or >= N, identity hook, unknown value when all selectors resolve) change nothing, the hook's value is what operators see; all subsets and permutations are enumerated exhaustively on the implementation",
        [MODEL_NOTE]),
    "C19": P("P_C19.v", ["C19"], T_EVAL,
        "dump (transcription of the four ExpressionDump methods) equals the rendering of the pre-order (level, text) line list for every tree, indent and level; %q is the validated strconv.Quote model",
        [MODEL_NOTE, "matches/not matches literals are not shown by ExpressionDump (the property lists equality and membership only)"],
        reference="the reference renderer (lines + render, proved equal to dump)"),
    "C10": {
        "coq": "P_C10.v", "harness": ["C10"], "trusted": T_PARSER,
        "explanation": "type soundness of the grammar table (accepted => well-formed expression, rejected => non-empty error list) and unconditional termination of the engine on the shipped table, proved for every byte string; tied to the real parser by result shape checks on the implementation and by comparing verdict, tree and step count with the model",
        "assumptions": ["the theorems are about the engine model; that the real parser behaves like it is checked on the generated corpus only"],
    },
    "C11": {
        "coq": "P_C11.v", "harness": ["C11"], "trusted": T_PARSER,
        "explanation": "simulation proof: a limited run is a prefix of the unlimited run; exactness (n >= N same result, n < N rejection after n+1 steps) for every input, budget, fuel and grammar; termination under a budget for any grammar; uint64 wrap-around of the step counter (2^64 steps) is out of scope",
        "assumptions": ["the real engine ticks once per parseExpr like the model: checked by equality of step counts on every generated input"],
    },
    "C15": {
        "coq": "P_C15.v", "harness": ["C15"], "trusted": T_PARSER, "reference": "the declarative PEG semantics of the table read from grammar.peg, run through the engine model",
        "explanation": "engine model proved sound and complete w.r.t. a declarative big-step PEG semantics of the table read from grammar.peg; result independent of fuel; the real parser is compared with that reference (verdict, tree, step count) on exhaustive short token sequences and generated derivations/mutations",
        "assumptions": ["'nothing else is accepted' rests on engine soundness/completeness plus the correspondence; the text->tree direction for an infinite fragment is C16's theorem"],
    },
    "C20": {
        "coq": "P_C20.v", "harness": ["C20"], "trusted": T_PARSER, "reference": "grammar.peg as read by T2",
        "explanation": "complete structural comparison, by the kernel, of the table and action code extracted from grammar.go with those extracted from grammar.peg by an independent reader; source positions are excluded",
        "assumptions": ["T1 and T2 read their inputs faithfully; the initializer block of grammar.peg (package clause, imports, helpers) is not compared"],
    },
}
