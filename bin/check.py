#!/usr/bin/env python3
"""bin/check <ID> [quick|thorough] [--replay FILE]

Decides one property on /repo's current working tree:
  1. regenerate the generated Coq files from /repo (translators T1-T4) and rebuild the property's
     theorem file and everything it depends on (full .vo build); recompile the theorem file to read
     its Print Assumptions output; hygiene grep
  2. rebuild the extracted model and the Go harness (-tags verif, against /repo)
  3. run the property's harness: property predicate evaluated directly on the implementation, and the
     model commands with the implementation's observations; run the extracted model on the same
     commands and compare
  4. decide: exit 0 if every obligation is discharged and nothing disagrees; otherwise report the
     failing input (direct violation or, for reference-semantics properties, the disagreeing case) or,
     when none is found, the obligation/correspondence that no longer checks (no-failing-input-found).
"""
import json, os, sys, time, re
sys.path.insert(0, os.path.dirname(os.path.abspath(__file__)))
import vlib
import kernelpath
from props import PROPS, TRUSTED_COMMON

def main():
    args = [a for a in sys.argv[1:]]
    if not args:
        print(__doc__); sys.exit(2)
    pid = args[0]
    tier = os.environ.get("VERIF_TIER", "quick")
    replay = None
    i = 1
    while i < len(args):
        if args[i] in ("quick", "thorough"):
            tier = args[i]
        elif args[i] == "--replay":
            replay = args[i + 1]; i += 1
        i += 1
    if pid not in PROPS:
        print("unknown property", pid); sys.exit(2)
    seed = int(os.environ.get("VERIF_SEED", "1") or "1")
    if replay:
        rp = json.load(open(replay))
        seed = int(rp.get("seed", seed)); tier = rp.get("tier", tier)
        print("replaying %s: property=%s seed=%d tier=%s" % (replay, pid, seed, tier))
        print(json.dumps(rp.get("failing_input") or rp.get("unchecked"), indent=1)[:4000])
    cfg = PROPS[pid]
    t0 = time.time()
    ev = {"property_id": pid, "tier": tier, "seed": seed, "level": "proof", "violations": 0}
    cov = {}
    problems = []          # things that no longer check: (kind, detail)
    failing = []           # concrete failing inputs: dicts
    with vlib.Lock():
        # ---- 1. proof obligations against the regenerated tables
        terrs = vlib.regenerate()
        pfiles0 = cfg["coq"] if isinstance(cfg["coq"], list) else [cfg["coq"]]
        relevant = vlib.coq_deps(pfiles0 + ["ModelApi.v"])
        for f, e in terrs.items():
            if f in relevant:
                problems.append({"kind": "translator", "what": f, "detail": e[-600:]})
            else:
                cov.setdefault("translator_failures_not_relevant_to_this_property", []).append(f)
        pfiles = cfg["coq"] if isinstance(cfg["coq"], list) else [cfg["coq"]]
        theorems, closed, axioms, all_ok, all_pok = [], 0, [], True, True
        for pf in pfiles:
            ok, log = vlib.make_targets([pf.replace(".v", ".vo")])
            if not ok:
                all_ok = False
                fails = vlib.failing_obligations(log)
                if not fails:
                    fails = [{"file": "?", "line": 0, "in": "?", "error": log[-600:]}]
                for f in fails:
                    problems.append({"kind": "proof-obligation", "what": "%s:%s (%s)" % (f["file"], f["line"], f["in"]), "detail": f["error"]})
                theorems += re.findall(r"^\s*(?:Theorem|Corollary)\s+([A-Za-z0-9_']+)", open(os.path.join(vlib.COQ, pf)).read(), re.M)
                continue
            pok1, th1, closed1, ax1, plog = vlib.compile_property_file(pf)
            theorems += th1
            if pok1:
                closed += closed1; axioms += ax1
            else:
                all_pok = False
                problems.append({"kind": "proof-obligation", "what": pf, "detail": plog[-600:]})
        ok, pok = all_ok, all_ok and all_pok
        hy = vlib.hygiene()
        if hy:
            problems.append({"kind": "hygiene", "what": "forbidden construct in the development", "detail": "; ".join(hy[:5])})
        cov["obligations"] = len(theorems)
        cov["discharged"] = closed + len(axioms)
        cov["theorems"] = theorems
        cov["axioms_reported_by_Print_Assumptions"] = axioms if axioms else ["none: every theorem is closed under the global context"]
        cov["checker_cmd"] = "make -C coq %s (full .vo build, coqc 8.16.1) && coqc -Q . Bexpr <each of: %s> (Print Assumptions)" % (" ".join(p.replace(".v", ".vo") for p in pfiles), " ".join(pfiles))
        cov["hygiene_hits"] = hy
        if pid == "C20" and not ok:
            gd = vlib.grammar_diff()
            if gd:
                # the structural difference IS the failing input of this structural property
                failing.append({"source": "structural comparison of the regenerated tables", "clause": "grammar.go and grammar.peg differ", "input": gd})
        if tier == "thorough" and ok and pok:
            cov["coqchk"] = []
            for pf in pfiles:
                cok, cax, clog = vlib.coqchk(pf)
                cov["coqchk"].append({"command": "coqchk -silent -o -Q . Bexpr Bexpr." + pf.replace(".v", ""), "ok": cok, "axioms": cax})
                if not cok:
                    problems.append({"kind": "coqchk", "what": pf, "detail": clog[-600:]})
        # ---- 2. model + harness
        mok, mlog = vlib.build_model()
        if not mok:
            problems.append({"kind": "model-build", "what": "ModelApi.v / extraction", "detail": mlog[-600:]})
        hok, hlog = vlib.build_harness(race=cfg.get("race", False))
        if not hok:
            # the harness is built against /repo: a failure to compile is a change of the public API it uses
            problems.append({"kind": "harness-build", "what": "go build -tags verif ./harness", "detail": hlog[-800:]})
    # ---- 3. run (outside the lock)
    total_eval = 0; total_distinct = 0; samples = []; dist = {}; rules = []; mism_all = []; model_lines = 0
    direct = []
    kernel_cases = 0
    if hok:
        for hp in cfg["harness"]:
            rd = os.path.join(vlib.BUILD, "run", "%s-%s" % (pid, hp) if hp != pid else pid)
            os.makedirs(rd, exist_ok=True)
            hb = os.path.join(vlib.BIN, "harness_race" if cfg.get("race") else "harness")
            try:
                os.remove(os.path.join(rd, "summary.json"))
            except OSError:
                pass
            rc, o = vlib.sh([hb, hp, "-tier", tier, "-seed", str(seed), "-out", rd], timeout=cfg.get("timeout", 3000), env=dict(vlib.GOENV, GORACE="halt_on_error=0 exitcode=66"))
            if "WARNING: DATA RACE" in o:
                # the race detector's report is the failing history: the accesses, their stacks and the case being run
                i = o.index("WARNING: DATA RACE")
                case = [l for l in o[:i].split("\n") if l.startswith("CASE ")]
                direct.append({"kind": "data-race", "key": "race", "harness": hp,
                               "case": {"case": case[-1] if case else "?", "race_report": o[i:i + 3000]},
                               "detail": "the Go race detector reported a data race while goroutines shared one evaluator/filter"})
            elif rc != 0:
                problems.append({"kind": "harness-run", "what": hp, "detail": o[-800:]})
                continue
            if not os.path.exists(os.path.join(rd, "summary.json")):
                problems.append({"kind": "harness-run", "what": hp, "detail": "no summary written: " + o[-400:]})
                continue
            s = json.load(open(os.path.join(rd, "summary.json")))
            total_eval += s["evaluations"]; total_distinct += s["distinct_nontrivial"]
            samples += s.get("samples") or []
            for k, v in (s.get("distribution") or {}).items():
                dist[hp + "/" + k if len(cfg["harness"]) > 1 else k] = v
            rules.append(s.get("rule", ""))
            for v in s.get("violations") or []:
                v["harness"] = hp
                direct.append(v)
            if mok:
                if pid == "C20":
                    # the two tables must BEHAVE alike under one engine and one action semantics: compare model(peg) with model(go)
                    mism, n = vlib.compare_pairs(rd)
                else:
                    mism, n = vlib.compare(rd)
                model_lines += n
                for m in mism:
                    m["harness"] = hp
                mism_all += mism
                # kernel path: a sample of the same commands evaluated inside Coq by vm_compute must agree with the extracted code
                kok, kn, kdetail = kernelpath.run(rd, vlib.COQ, os.path.join(vlib.BUILD, "kernel", pid), want=(400 if tier == "thorough" else 100))
                kernel_cases += kn
                if not kok:
                    problems.append({"kind": "kernel-path", "what": "vm_compute vs extracted model on %s" % hp, "detail": kdetail[-600:]})
    # ---- 4. decide
    known = [k for k in vlib.known_findings() if k["property"] == pid]
    def is_known(key):
        return any(k["key"] == key for k in known)
    printed_known = set()
    for v in direct:
        if is_known(v.get("key", "")):
            if v["key"] not in printed_known:
                print("KNOWN-FINDING: property=%s %s" % (pid, [k for k in known if k["key"] == v["key"]][0]["what"]))
                printed_known.add(v["key"])
            continue
        failing.append({"source": "property predicate evaluated on the implementation", "clause": v["kind"], "input": v["case"], "observed": v["detail"], "harness": v["harness"]})
    for m in mism_all:
        entry = {"source": "correspondence", "input": m["case"], "implementation": m.get("impl"), "model": m.get("model"), "harness": m["harness"], "line": m["line"]}
        if cfg.get("reference"):
            # the model is this property's reference semantics: a disagreement is a failing input
            entry["clause"] = "implementation differs from the reference semantics (" + cfg["reference"] + ")"
            failing.append(entry)
        else:
            problems.append({"kind": "correspondence", "what": "model vs implementation on %s" % m["harness"], "detail": json.dumps(entry)[:1500]})
    cov.update({
        "evaluations": total_eval, "distinct_nontrivial": total_distinct, "rule": " || ".join(r for r in rules if r),
        "samples": samples[:12] or [{"note": "no harness cases for this property"}],
        "traces_validated_against_impl": model_lines,
        "cases_also_evaluated_inside_coq_by_vm_compute": kernel_cases,
        "model_vs_implementation_mismatches": len(mism_all),
        "direct_predicate_violations": len(direct),
        "distribution": dist,
        "trusted_base": TRUSTED_COMMON + cfg.get("trusted", []),
        "explanation": cfg.get("explanation", ""),
    })
    if cov["discharged"] == 0:
        # nothing discharged (a broken build): the schema's proof keys demand >= 1, so report the count under another key
        cov["discharged_count"] = cov.pop("discharged")
    ev["coverage"] = cov
    ev["assumptions"] = cfg.get("assumptions", [])
    rc = 0
    os.makedirs(os.path.join(vlib.VERIF, "replays"), exist_ok=True)
    if failing or problems:
        rc = 1
        rp = os.path.join(vlib.VERIF, "replays", "%s-%d-%s.json" % (pid, seed, tier))
        body = {"property": pid, "seed": seed, "tier": tier, "replay_cmd": "bin/check %s --replay %s" % (pid, rp)}
        if failing:
            body["failing_input"] = failing[0]
            body["more_failing_inputs"] = failing[1:10]
            body["no_longer_checks"] = problems[:10]
            json.dump(body, open(rp, "w"), indent=1, default=str)
            print("VIOLATION property=%s replay=%s" % (pid, rp))
        else:
            body["unchecked"] = problems[:20]
            body["note"] = "no failing input was found by the property predicate on the implementation nor by the correspondence; the property is no longer shown to hold because the items under `unchecked` no longer check"
            json.dump(body, open(rp, "w"), indent=1, default=str)
            print("VIOLATION property=%s replay=%s no-failing-input-found" % (pid, rp))
        for p in problems[:6]:
            print("  no longer checks: %s %s: %s" % (p["kind"], p["what"], p["detail"][:300].replace("\n", " ")))
        for f in failing[:3]:
            print("  failing input: %s" % json.dumps(f, default=str)[:600])
    ev["violations"] = len(failing) + (1 if problems and not failing else 0)
    ev["wall_s"] = round(time.time() - t0, 2)
    # evidence describes a run against /repo; a development run against a scratch copy (VERIF_REPO) keeps its record apart
    evdir = os.path.join(vlib.VERIF, "evidence") if vlib.REPO == "/repo" else os.path.join(vlib.BUILD, "scratch_evidence")
    os.makedirs(evdir, exist_ok=True)
    json.dump(ev, open(os.path.join(evdir, pid + ".json"), "w"), indent=1, default=str)
    print("%s %s: obligations %d/%d, implementation cases %d (distinct %d), model lines %d, mismatches %d, direct violations %d, %.0fs -> %s" % (
        pid, tier, cov.get("discharged", 0), cov["obligations"], total_eval, total_distinct, model_lines, len(mism_all), len(direct), time.time() - t0, "OK" if rc == 0 else "VIOLATION"))
    sys.exit(rc)

if __name__ == "__main__":
    main()
