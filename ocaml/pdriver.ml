(* parser cases: "b1 b2 ..." per line -> verdict and step count *)
let rec pos_of_int n = if n = 1 then Model.XH else if n land 1 = 0 then Model.XO (pos_of_int (n lsr 1)) else Model.XI (pos_of_int (n lsr 1))
let z_of_int n = if n = 0 then Model.Z0 else Model.Zpos (pos_of_int n)
let rec int_of_pos = function Model.XH -> 1 | Model.XO p -> 2 * int_of_pos p | Model.XI p -> 2 * int_of_pos p + 1
let int_of_n = function Model.N0 -> 0 | Model.Npos p -> int_of_pos p
let () =
  try
    while true do
      let line = input_line stdin in
      let bytes = List.filter (fun s -> s <> "") (String.split_on_char ' ' line) in
      let s = List.fold_right (fun b acc -> Model.String (Model.z2b (z_of_int (int_of_string b)), acc)) bytes Model.EmptyString in
      (match Model.model_parse None s with
       | Model.Accepted (_, n) -> Printf.printf "A %d\n" (int_of_n n)
       | Model.Rejected (_, n, _) -> Printf.printf "R %d\n" (int_of_n n)
       | Model.NoFuel -> print_endline "NOFUEL")
    done
  with End_of_file -> ()
