(* Reads the Go harness's S-expression cases, runs the extracted evaluator model, compares outcome classes. *)

type sx = A of string | L of sx list

let parse_line (s : string) : sx =
  let n = String.length s in
  let pos = ref 0 in
  let rec skip () = if !pos < n && (s.[!pos] = ' ' || s.[!pos] = '\t') then (incr pos; skip ()) in
  let rec item () =
    skip ();
    if s.[!pos] = '(' then begin
      incr pos;
      let acc = ref [] in
      let rec loop () = skip (); if s.[!pos] = ')' then incr pos else (acc := item () :: !acc; loop ()) in
      loop (); L (List.rev !acc)
    end else begin
      let st = !pos in
      while !pos < n && s.[!pos] <> ' ' && s.[!pos] <> '(' && s.[!pos] <> ')' do incr pos done;
      A (String.sub s st (!pos - st))
    end in
  item ()

let unhex_bytes (a : string) : string =   (* "h:616263" *)
  let h = String.sub a 2 (String.length a - 2) in
  String.init (String.length h / 2) (fun i -> Char.chr (int_of_string ("0x" ^ String.sub h (2 * i) 2)))
let ostr_length = String.length
let ostr_get (s : string) i = s.[i]
let ostr_iteri = String.iteri

let types : (string, Model.gtype) Hashtbl.t = Hashtbl.create 16
let hist : (string, int) Hashtbl.t = Hashtbl.create 8

open Model

(* conversions to the extracted types *)
let rec pos_of_int n = if n = 1 then XH else if n land 1 = 0 then XO (pos_of_int (n lsr 1)) else XI (pos_of_int (n lsr 1))
let z_of_int n = if n = 0 then Z0 else if n > 0 then Zpos (pos_of_int n) else Zneg (pos_of_int (-n))
let z_of_decimal s : z =
  let neg = ostr_length s > 0 && ostr_get s 0 = '-' in
  let acc = ref Z0 in
  ostr_iteri (fun i c -> if not (i = 0 && neg) then acc := Z.add (Z.mul !acc (z_of_int 10)) (z_of_int (Char.code c - 48))) s;
  if neg then Z.opp !acc else !acc
let rec nat_of_int n = if n = 0 then O else S (nat_of_int (n - 1))
let coq_string_of_bytes b =
  let r = ref EmptyString in
  for i = ostr_length b - 1 downto 0 do r := String (z2b (z_of_int (Char.code (ostr_get b i))), !r) done; !r
let cs a = coq_string_of_bytes (unhex_bytes a)
let bool_of = function A "true" -> true | A "false" -> false | _ -> failwith "bool"


let rec ty = function
  | A "TBool" -> TBool | A "TUintptr" -> TUintptr | A "TF32" -> TF32 | A "TF64" -> TF64 | A "TString" -> TString
  | A "TComplex" -> TComplex | A "TChan" -> TChan | A "TFunc" -> TFunc | A "TUnsafe" -> TUnsafe | A "TIface" -> TIface
  | L [A "TInt"; A w] -> TInt (match w with "I0" -> I0 | "I8" -> I8 | "I16" -> I16 | "I32" -> I32 | _ -> I64)
  | L [A "TUint"; A w] -> TUint (match w with "U0" -> U0 | "U8" -> U8 | "U16" -> U16 | "U32" -> U32 | _ -> U64)
  | L [A "TNamed"; A n; t] -> TNamed (cs n, ty t)
  | L [A "TPtr"; t] -> TPtr (ty t) | L [A "TSlice"; t] -> TSlice (ty t)
  | L [A "TArray"; A n; t] -> TArray (nat_of_int (int_of_string n), ty t)
  | L [A "TMap"; k; v] -> TMap (ty k, ty v)
  | L [A "TRef"; A n] -> Hashtbl.find types n
  | L [A "TStruct"; A n; L fs] -> TStruct (cs n, List.map fd fs)
  | _ -> failwith "type"
and fd = function
  | L [A "FD"; A n; ex; L tags; t] ->
      FD (cs n, bool_of ex, List.map (function L [A k; A v] -> (cs k, cs v) | _ -> failwith "tag") tags, ty t)
  | _ -> failwith "fd"

let rec vl = function
  | A "VOpaque" -> VOpaque | A "VNilPtr" -> VNilPtr | A "VNilIface" -> VNilIface
  | L [A "VBool"; b] -> VBool (bool_of b)
  | L [A "VInt"; A n] -> VInt (z_of_decimal n) | L [A "VUint"; A n] -> VUint (z_of_decimal n)
  | L [A "VF32"; A n] -> VF32 (z_of_decimal n) | L [A "VF64"; A n] -> VF64 (z_of_decimal n)
  | L [A "VStr"; A s] -> VStr0 (cs s)
  | L [A "VPtr"; v] -> VPtr (vl v)
  | L [A "VIface"; t; v] -> VIface (ty t, vl v)
  | L [A "VSlice"; b; L l] -> VSlice (bool_of b, List.map vl l)
  | L [A "VArray"; L l] -> VArray (List.map vl l)
  | L [A "VMap"; b; L l] -> VMap (bool_of b, List.map (function L [k; v] -> (vl k, vl v) | _ -> failwith "kv") l)
  | L [A "VStruct"; L l] -> VStruct (List.map vl l)
  | _ -> failwith "value"

let iface = function A "none" -> None | L [A "some"; t; v] -> Some (ty t, vl v) | _ -> failwith "iface"

let sel = function
  | L [A "sel"; A t; L p] -> { stype = (if t = "SelBexpr" then SelBexpr else SelJsonPtr); spath = List.map (function A x -> cs x | _ -> failwith "part") p }
  | _ -> failwith "sel"
let mop = function
  | "OpEq" -> OpEq | "OpNeq" -> OpNeq | "OpIn" -> OpIn | "OpNotIn" -> OpNotIn | "OpIsEmpty" -> OpIsEmpty
  | "OpIsNotEmpty" -> OpIsNotEmpty | "OpMatches" -> OpMatches | _ -> OpNotMatches
let rec ex = function
  | L [A "ENot"; e] -> ENot (ex e)
  | L [A "EBin"; A o; l; r] -> EBin ((if o = "BAnd" then BAnd else BOr), ex l, ex r)
  | L [A "EMatch"; s; A o; v] -> EMatch (sel s, mop o, (match v with A "none" -> None | L [A "some"; A x] -> Some (cs x) | _ -> failwith "val"))
  | L [A "EColl"; A o; s; L [A "bind"; A m; A d; A i; A v]; e] ->
      let mode = match m with "BDefault" -> BDefault | "BIndex" -> BIndex | "BValue" -> BValue | _ -> BIndexAndValue in
      EColl ((if o = "CAll" then CAll else CAny), sel s, { bmode = mode; bdefault = cs d; bindex = cs i; bvalue = cs v }, ex e)
  | _ -> failwith "expr"

let () =
  let total = ref 0 and bad = ref 0 in
  let t0 = Sys.time () in
  (try
    while true do
      let line = input_line stdin in
      match parse_line line with
      | L [A "deftype"; A n; t] -> Hashtbl.replace types n (ty t)
      | L [A "case"; A tag; unk; e; d; L tbl; A expected] ->
          let table = List.map (function L [A p; A s; r] -> (cs p, cs s, (match r with A "none" -> None | b -> Some (bool_of b))) | _ -> failwith "re") tbl in
          let re p s = (try let (_, _, r) = List.find (fun (p', s', _) -> p' = p && s' = s) table in r with Not_found -> None) in
          let unk = (match unk with A "none" -> None | L [A "some"; i] -> Some (iface i) | _ -> failwith "unk") in
          let got = match model_eval re (cs tag) unk (ex e) (iface d) with
            | Out (true, None) -> "T" | Out (false, None) -> "F" | Out (false, Some _) -> "E" | Out (true, Some _) -> "X" | Panic -> "P" in
          incr total;
          Hashtbl.replace hist got (1 + (try Hashtbl.find hist got with Not_found -> 0));
          if got <> expected then (incr bad; if !bad <= 10 then Printf.printf "MISMATCH case %d: expected %s got %s\n" !total expected got)
      | _ -> failwith "line"
    done
  with End_of_file -> ());
  Printf.printf "cases=%d mismatches=%d cpu=%.2fs" !total !bad (Sys.time () -. t0);
  Hashtbl.iter (fun k v -> Printf.printf " %s=%d" k v) hist; print_newline ()
