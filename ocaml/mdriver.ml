(* Model driver: reads one S-expression command per line (written by the Go harness), runs the
   extracted Coq model (model.ml, ExtrOcamlBasic only) and prints exactly one canonical result
   line per command line.  The harness writes the implementation's observation for the same line
   in the same canonical form; bin/check compares the two files line by line.

   Byte strings are written h:<hex>.  Commands:
     (deftype name type)                                         -> "-"
     (parse go|peg budget|none h:bytes)                          -> A <steps> <tree> | R <steps> <max 0|1> | NOFUEL
     (eval tag unk hook expr datum retable)                      -> T | F | E:<class> | X | P
     (evaluate src opts datum retable)                           -> same, or NOCREATE
     (execute src opts datum retable)                            -> NOCREATE | ERR | PANIC | DATA | (slice ty (v..)) | (map ty ((k v)..))
     (jeval unk expr json retable)                                 -> T | F | E   (the documented interpreter over JSON documents)
     (dump h:indent lvl expr)                                    -> h:<text>
     (quote h:s) (unquote h:s) (parseint h:s base bits) (parseuint ..) (parsefloat h:s bits) (parsebool h:s)
     (ptrunescape h:s) (validutf8 h:s) (selstring sel)
*)

type sx = A of string | L of sx list

let parse_line (s : string) : sx =
  let n = String.length s in
  let pos = ref 0 in
  let rec skip () = if !pos < n && (s.[!pos] = ' ' || s.[!pos] = '\t') then (incr pos; skip ()) in
  let rec item () =
    skip ();
    if s.[!pos] = '(' then begin
      incr pos;
      let acc = ref [] in
      let rec loop () = skip (); if s.[!pos] = ')' then incr pos else (acc := item () :: !acc; loop ()) in
      loop (); L (List.rev !acc)
    end else begin
      let st = !pos in
      while !pos < n && s.[!pos] <> ' ' && s.[!pos] <> '(' && s.[!pos] <> ')' do incr pos done;
      A (String.sub s st (!pos - st))
    end in
  item ()

let unhex_bytes (a : string) : string =   (* "h:616263" *)
  let h = String.sub a 2 (String.length a - 2) in
  String.init (String.length h / 2) (fun i -> Char.chr (int_of_string ("0x" ^ String.sub h (2 * i) 2)))
let ostr_length = String.length
let ostr_get (s : string) i = s.[i]
let ostr_iteri = String.iteri
let ostr_concat = String.concat
let obuf_hex (b : Buffer.t) (c : char) = Buffer.add_string b (Printf.sprintf "%02x" (Char.code c))

let types : (string, Model.gtype) Hashtbl.t = Hashtbl.create 16

open Model

(* ---------- conversions to the extracted types ---------- *)
let rec pos_of_int n = if n = 1 then XH else if n land 1 = 0 then XO (pos_of_int (n lsr 1)) else XI (pos_of_int (n lsr 1))
let z_of_int n = if n = 0 then Z0 else if n > 0 then Zpos (pos_of_int n) else Zneg (pos_of_int (-n))
let n_of_int n = if n = 0 then N0 else Npos (pos_of_int n)
let z_of_decimal s : z =
  let neg = ostr_length s > 0 && ostr_get s 0 = '-' in
  let acc = ref Z0 in
  ostr_iteri (fun i c -> if not (i = 0 && neg) then acc := Z.add (Z.mul !acc (z_of_int 10)) (z_of_int (Char.code c - 48))) s;
  if neg then Z.opp !acc else !acc
let n_of_decimal s : n = match z_of_decimal s with Zpos p -> Npos p | _ -> N0
let rec nat_of_int n = if n = 0 then O else S (nat_of_int (n - 1))
let rec int_of_nat = function O -> 0 | S n -> 1 + int_of_nat n
let coq_string_of_bytes b =
  let r = ref EmptyString in
  for i = ostr_length b - 1 downto 0 do r := String (z2b (z_of_int (Char.code (ostr_get b i))), !r) done; !r
let cs a = coq_string_of_bytes (unhex_bytes a)
let bool_of = function A "true" -> true | A "false" -> false | _ -> failwith "bool"

(* ---------- printing ---------- *)
let rec int_of_pos = function XH -> 1 | XO p -> 2 * int_of_pos p | XI p -> 2 * int_of_pos p + 1
let int_of_z = function Z0 -> 0 | Zpos p -> int_of_pos p | Zneg p -> - (int_of_pos p)
(* decimal printing of arbitrarily large z: repeated division by 10 *)
let dec_of_z (v : z) =
  let ten = z_of_int 10 in
  let neg = (match v with Zneg _ -> true | _ -> false) in
  let v = Z.abs v in
  let rec go v acc = match v with
    | Z0 -> acc
    | _ -> let (q, r) = Z.div_eucl v ten in go q (string_of_int (int_of_z r) ^ acc) in
  let s = (match v with Z0 -> "0" | _ -> go v "") in
  if neg then "-" ^ s else s
let dec_of_n = function N0 -> "0" | Npos p -> dec_of_z (Zpos p)
let hex_of_coq s =
  let b = Buffer.create 32 in
  Buffer.add_string b "h:";
  let rec go = function EmptyString -> () | String (c, t) -> obuf_hex b (Char.chr (int_of_z (b2z c))); go t in
  go s; Buffer.contents b

let rec ty = function
  | A "TBool" -> TBool | A "TUintptr" -> TUintptr | A "TF32" -> TF32 | A "TF64" -> TF64 | A "TString" -> TString
  | A "TComplex" -> TComplex | A "TChan" -> TChan | A "TFunc" -> TFunc | A "TUnsafe" -> TUnsafe | A "TIface" -> TIface
  | L [A "TInt"; A w] -> TInt (match w with "I0" -> I0 | "I8" -> I8 | "I16" -> I16 | "I32" -> I32 | _ -> I64)
  | L [A "TUint"; A w] -> TUint (match w with "U0" -> U0 | "U8" -> U8 | "U16" -> U16 | "U32" -> U32 | _ -> U64)
  | L [A "TNamed"; A n; t] -> TNamed (cs n, ty t)
  | L [A "TPtr"; t] -> TPtr (ty t) | L [A "TSlice"; t] -> TSlice (ty t)
  | L [A "TArray"; A n; t] -> TArray (nat_of_int (int_of_string n), ty t)
  | L [A "TMap"; k; v] -> TMap (ty k, ty v)
  | L [A "TRef"; A n] -> Hashtbl.find types n
  | L [A "TStruct"; A n; L fs] -> TStruct (cs n, List.map fd fs)
  | _ -> failwith "type"
and fd = function
  | L [A "FD"; A n; ex; L tags; t] ->
      FD (cs n, bool_of ex, List.map (function L [A k; A v] -> (cs k, cs v) | _ -> failwith "tag") tags, ty t)
  | _ -> failwith "fd"

let rec vl = function
  | A "VOpaque" -> VOpaque | A "VNilPtr" -> VNilPtr | A "VNilIface" -> VNilIface
  | L [A "VBool"; b] -> VBool (bool_of b)
  | L [A "VInt"; A n] -> VInt (z_of_decimal n) | L [A "VUint"; A n] -> VUint (z_of_decimal n)
  | L [A "VF32"; A n] -> VF32 (z_of_decimal n) | L [A "VF64"; A n] -> VF64 (z_of_decimal n)
  | L [A "VStr"; A s] -> VStr0 (cs s)
  | L [A "VPtr"; v] -> VPtr (vl v)
  | L [A "VIface"; t; v] -> VIface (ty t, vl v)
  | L [A "VSlice"; b; L l] -> VSlice (bool_of b, List.map vl l)
  | L [A "VArray"; L l] -> VArray (List.map vl l)
  | L [A "VMap"; b; L l] -> VMap (bool_of b, List.map (function L [k; v] -> (vl k, vl v) | _ -> failwith "kv") l)
  | L [A "VStruct"; L l] -> VStruct (List.map vl l)
  | _ -> failwith "value"

let iface = function A "none" -> None | L [A "some"; t; v] -> Some (ty t, vl v) | _ -> failwith "iface"

(* type / value printers: the same canonical text the Go serialiser writes (struct types by name) *)
let iwn = function I0 -> "I0" | I8 -> "I8" | I16 -> "I16" | I32 -> "I32" | I64 -> "I64"
let uwn = function U0 -> "U0" | U8 -> "U8" | U16 -> "U16" | U32 -> "U32" | U64 -> "U64"
let rec pty = function
  | TBool -> "TBool" | TUintptr -> "TUintptr" | TF32 -> "TF32" | TF64 -> "TF64" | TString -> "TString"
  | TComplex -> "TComplex" | TChan -> "TChan" | TFunc -> "TFunc" | TUnsafe -> "TUnsafe" | TIface -> "TIface"
  | TInt w -> "(TInt " ^ iwn w ^ ")" | TUint w -> "(TUint " ^ uwn w ^ ")"
  | TNamed (n, t) -> "(TNamed " ^ hex_of_coq n ^ " " ^ pty t ^ ")"
  | TPtr t -> "(TPtr " ^ pty t ^ ")" | TSlice t -> "(TSlice " ^ pty t ^ ")"
  | TArray (n, t) -> "(TArray " ^ string_of_int (int_of_nat n) ^ " " ^ pty t ^ ")"
  | TMap (k, v) -> "(TMap " ^ pty k ^ " " ^ pty v ^ ")"
  | TStruct (n, _) -> "(TStructNamed " ^ hex_of_coq n ^ ")"
let rec pvl = function
  | VOpaque -> "VOpaque" | VNilPtr -> "VNilPtr" | VNilIface -> "VNilIface"
  | VBool b -> "(VBool " ^ string_of_bool b ^ ")"
  | VInt z -> "(VInt " ^ dec_of_z z ^ ")" | VUint z -> "(VUint " ^ dec_of_z z ^ ")"
  | VF32 z -> "(VF32 " ^ dec_of_z z ^ ")" | VF64 z -> "(VF64 " ^ dec_of_z z ^ ")"
  | VStr0 s -> "(VStr " ^ hex_of_coq s ^ ")"
  | VPtr v -> "(VPtr " ^ pvl v ^ ")"
  | VIface (t, v) -> "(VIface " ^ pty t ^ " " ^ pvl v ^ ")"
  | VSlice (b, l) -> "(VSlice " ^ string_of_bool b ^ " (" ^ ostr_concat " " (List.map pvl l) ^ "))"
  | VArray l -> "(VArray (" ^ ostr_concat " " (List.map pvl l) ^ "))"
  | VMap (b, l) -> "(VMap " ^ string_of_bool b ^ " (" ^ ostr_concat " " (List.map (fun (k, v) -> "(" ^ pvl k ^ " " ^ pvl v ^ ")") l) ^ "))"
  | VStruct l -> "(VStruct (" ^ ostr_concat " " (List.map pvl l) ^ "))"

let sel = function
  | L [A "sel"; A t; L p] -> { stype = (if t = "SelBexpr" then SelBexpr else SelJsonPtr); spath = List.map (function A x -> cs x | _ -> failwith "part") p }
  | _ -> failwith "sel"
let mop = function
  | "OpEq" -> OpEq | "OpNeq" -> OpNeq | "OpIn" -> OpIn | "OpNotIn" -> OpNotIn | "OpIsEmpty" -> OpIsEmpty
  | "OpIsNotEmpty" -> OpIsNotEmpty | "OpMatches" -> OpMatches | _ -> OpNotMatches
let rec ex = function
  | L [A "ENot"; e] -> ENot (ex e)
  | L [A "EBin"; A o; l; r] -> EBin ((if o = "BAnd" then BAnd else BOr), ex l, ex r)
  | L [A "EMatch"; s; A o; v] -> EMatch (sel s, mop o, (match v with A "none" -> None | L [A "some"; A x] -> Some (cs x) | _ -> failwith "val"))
  | L [A "EColl"; A o; s; L [A "bind"; A m; A d; A i; A v]; e] ->
      let mode = match m with "BDefault" -> BDefault | "BIndex" -> BIndex | "BValue" -> BValue | _ -> BIndexAndValue in
      EColl ((if o = "CAll" then CAll else CAny), sel s, { bmode = mode; bdefault = cs d; bindex = cs i; bvalue = cs v }, ex e)
  | _ -> failwith "expr"

let psel s = "(sel " ^ (match s.stype with SelBexpr -> "SelBexpr" | SelJsonPtr -> "SelJsonPtr") ^ " (" ^ ostr_concat " " (List.map hex_of_coq s.spath) ^ "))"
let pmop = function
  | OpEq -> "OpEq" | OpNeq -> "OpNeq" | OpIn -> "OpIn" | OpNotIn -> "OpNotIn" | OpIsEmpty -> "OpIsEmpty"
  | OpIsNotEmpty -> "OpIsNotEmpty" | OpMatches -> "OpMatches" | OpNotMatches -> "OpNotMatches"
let rec pex = function
  | ENot e -> "(ENot " ^ pex e ^ ")"
  | EBin (o, l, r) -> "(EBin " ^ (match o with BAnd -> "BAnd" | BOr -> "BOr") ^ " " ^ pex l ^ " " ^ pex r ^ ")"
  | EMatch (s, o, v) -> "(EMatch " ^ psel s ^ " " ^ pmop o ^ " " ^ (match v with None -> "none" | Some x -> "(some " ^ hex_of_coq x ^ ")") ^ ")"
  | EColl (o, s, b, e) ->
      let m = match b.bmode with BDefault -> "BDefault" | BIndex -> "BIndex" | BValue -> "BValue" | BIndexAndValue -> "BIndexAndValue" in
      "(EColl " ^ (match o with CAll -> "CAll" | CAny -> "CAny") ^ " " ^ psel s ^ " (bind " ^ m ^ " " ^ hex_of_coq b.bdefault ^ " "
      ^ hex_of_coq b.bindex ^ " " ^ hex_of_coq b.bvalue ^ ") " ^ pex e ^ ")"

let errname = function
  | ENotFound -> "NotFound" | EIgnored -> "Ignored" | EBadTag -> "BadTag" | EInvalidKind -> "InvalidKind" | EOutOfRange -> "OutOfRange"
  | EConvert -> "Convert" | EHookNil -> "HookNil" | ECoerceSyntax -> "CoerceSyntax" | ECoerceRange -> "CoerceRange"
  | ENoEquality -> "NoEquality" | ENotContainer -> "NotContainer" | ENotBytes -> "NotBytes" | EBadRegex -> "BadRegex"
  | EInIface -> "InIface" | ENoLen -> "NoLen" | EJsonNumber -> "JsonNumber" | ENotIterable -> "NotIterable" | EKeyType -> "KeyType"
  | ESameName -> "SameName" | ELocalIsScalar -> "LocalIsScalar" | EBadNode -> "BadNode"
let poutcome = function
  | Out (true, None) -> "T" | Out (false, None) -> "F" | Out (false, Some e) -> "E:" ^ errname e | Out (true, Some _) -> "X" | Panic -> "P"

let retable tbl =
  let table = List.map (function L [A p; A s; r] -> (cs p, cs s, (match r with A "none" -> None | b -> Some (bool_of b))) | _ -> failwith "re") tbl in
  fun p s -> (try let (_, _, r) = List.find (fun (p', s', _) -> p' = p && s' = s) table in r with Not_found -> None)

(* JSON documents: (JNull) (JBool b) (JNum bits) (JNumber h:text) (JStr h:s) (JArr (j..)) (JObj ((h:k j)..)) *)
let rec json_of = function
  | A "JNull" -> JNull
  | L [A "JBool"; b] -> JBool (bool_of b)
  | L [A "JNum"; A n] -> JNum (z_of_decimal n)
  | L [A "JNumber"; A s] -> JNumber (cs s)
  | L [A "JStr"; A s] -> JStr (cs s)
  | L [A "JArr"; L l] -> JArr (List.map json_of l)
  | L [A "JObj"; L kvs] -> JObj (List.map (function L [A k; v] -> (cs k, json_of v) | _ -> failwith "member") kvs)
  | _ -> failwith "json"

let mopt_of = function
  | L [A "max"; A n] -> MMax (n_of_decimal n)
  | L [A "tag"; A s] -> MTag (cs s)
  | L [A "hook"; A n] -> MHook (nat_of_int (int_of_string n))
  | L [A "unknown"; i] -> MUnknown (iface i)
  | A "nil" -> MNil
  | _ -> failwith "opt"

let ppres f = function POk a -> "ok " ^ f a | PErr PSyntax -> "syntax" | PErr PRange -> "range"

let budget = function A "none" -> None | A n -> Some (n_of_decimal n) | _ -> failwith "budget"

let handle line =
  match parse_line line with
  | L [A "deftype"; A n; t] -> Hashtbl.replace types n (ty t); "-"
  | L [A "parse"; A which; b; A s] ->
      let r = (if which = "peg" then model_parse_peg else model_parse) (budget b) (cs s) in
      (match r with
       | Accepted (VExpr e, n) -> "A " ^ dec_of_n n ^ " " ^ pex e
       | Accepted (_, n) -> "A " ^ dec_of_n n ^ " NOTEXPR"
       | Rejected (_, n, m) -> "R " ^ dec_of_n n ^ (if m then " 1" else " 0")
       | NoFuel -> "NOFUEL")
  | L [A "eval"; A tag; unk; A hk; e; d; L tbl] ->
      let unk = (match unk with A "none" -> None | L [A "some"; i] -> Some (iface i) | _ -> failwith "unk") in
      poutcome (model_eval (retable tbl) (cs tag) unk (nat_of_int (int_of_string hk)) (ex e) (iface d))
  | L [A "evaluate"; A src; L os; d; L tbl] ->
      (match model_evaluate (retable tbl) (cs src) (List.map mopt_of os) (iface d) with None -> "NOCREATE" | Some o -> poutcome o)
  | L [A "execute"; A src; L os; d; L tbl] ->
      (match model_execute (retable tbl) (cs src) (List.map mopt_of os) (iface d) with
       | None -> "NOCREATE"
       | Some (FErr _) -> "ERR" | Some FPanic -> "PANIC" | Some (FData _) -> "DATA"
       | Some (FSlice (t, l)) -> "(slice " ^ pty t ^ " (" ^ ostr_concat " " (List.map pvl l) ^ "))"
       | Some (FMap (t, l)) -> "(map " ^ pty t ^ " (" ^ ostr_concat " " (List.map (fun (k, v) -> "(" ^ pvl k ^ " " ^ pvl v ^ ")") l) ^ "))")
  | L [A "jeval"; u; e; j; L tbl] ->
      let unk = (match u with A "none" -> None | L [A "some"; x] -> Some (json_of x) | _ -> failwith "jeval unknown") in
      (match model_jeval (retable tbl) unk (ex e) (json_of j) with Some true -> "T" | Some false -> "F" | None -> "E")
  | L [A "dump"; A ind; A lvl; e] -> hex_of_coq (model_dump (cs ind) (nat_of_int (int_of_string lvl)) (ex e))
  | L [A "quote"; A s] -> hex_of_coq (go_quote (cs s))
  | L [A "unquote"; A s] -> (match unquote (cs s) with Some r -> "ok " ^ hex_of_coq r | None -> "err")
  | L [A "parseint"; A s; A base; A bits] -> ppres dec_of_z (parse_int (cs s) (z_of_decimal base) (z_of_decimal bits))
  | L [A "parseuint"; A s; A base; A bits] -> ppres dec_of_z (parse_uint (cs s) (z_of_decimal base) (z_of_decimal bits))
  | L [A "parsefloat"; A s; A bits] ->
      (* strconv returns the rounded value together with a range error; the model returns PErr PRange *)
      ppres dec_of_z (parse_float (cs s) (z_of_decimal bits))
  | L [A "parsebool"; A s] -> ppres string_of_bool (parse_bool (cs s))
  | L [A "ptrunescape"; A s] -> hex_of_coq (ptr_unescape (cs s))
  | L [A "validutf8"; A s] -> string_of_bool (valid_utf8 (cs s))
  | L [A "selstring"; s] -> hex_of_coq (selector_string (sel s))
  | _ -> failwith "unknown command"

let () =
  (try
    while true do
      let line = input_line stdin in
      let out = (try handle line with Failure m -> "DRIVER-ERROR " ^ m | Not_found -> "DRIVER-ERROR notfound" | Invalid_argument m -> "DRIVER-ERROR " ^ m) in
      print_string out; print_char '\n'
    done
  with End_of_file -> ())
